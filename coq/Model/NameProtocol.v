(* C03 - name-level model of a residue and of the four hydrogen-optimisation
   NAME PROTOCOLS of pdb2pqr/hydrogens/structures.py (Flip, Alcoholic, Water,
   Carboxylic) + HydrogenRoutines.cleanup.  Executable model only.

   Layer 1 ([res]): Residue.add_atom/create_atom/remove_atom/rename_atom as
   they behave: an ordered list of atom objects (id, current name) plus a
   dict name -> object.  create with an existing name overwrites the dict
   entry and leaves two list entries with the same name; rename onto an
   existing name does the same; rename x x deletes the dict entry.

   Layer 2 (guarded name lists, [W]): the same three operations on the list of
   names, defined only when the dict and the list stay consistent
   (create: name absent; remove: name present - else Python raises KeyError;
   rename: old present, new absent).  Proofs/NameProtocol.v shows layer 2 is
   exactly layer 1 whenever the guard holds.  A failed guard is the value
   [Error]: either a KeyError or a silently inconsistent residue.

   Layer 3: the protocols as nondeterministic state machines over layer 2.
   Geometric decisions (is_hbond, energies, distances) are oracle values
   carried by the step labels. *)
From Coq Require Import String List Bool Arith Ascii.
From PV Require Import Lib.Strings.
Import ListNotations.
Local Open Scope string_scope.

(* ---- layer 1: Residue as list of objects + dict -------------------------- *)

Record res := mkres { r_atoms : list (nat * string); r_map : string -> option nat; r_fresh : nat }.

Definition upd (m : string -> option nat) (k : string) (v : option nat) : string -> option nat :=
  fun x => if String.eqb x k then v else m x.

Definition res_empty : res := mkres [] (fun _ => None) 0.

(* add_atom(Atom named n) / create_atom(n, coords) *)
Definition res_create (n : string) (s : res) : res :=
  mkres (r_atoms s ++ [(r_fresh s, n)])%list (upd (r_map s) n (Some (r_fresh s))) (S (r_fresh s)).

Fixpoint remove_id (i : nat) (l : list (nat * string)) : list (nat * string) :=
  match l with
  | [] => []
  | a :: r => if Nat.eqb (fst a) i then r else a :: remove_id i r
  end.

(* remove_atom(n): None = KeyError *)
Definition res_remove (n : string) (s : res) : option res :=
  match r_map s n with
  | None => None
  | Some i => Some (mkres (remove_id i (r_atoms s)) (upd (r_map s) n None) (r_fresh s))
  end.

(* rename_atom(o, n): atom.name = n; map[n] = atom; del map[o] *)
Definition res_rename (o n : string) (s : res) : option res :=
  match r_map s o with
  | None => None
  | Some i =>
      Some (mkres (map (fun a => if Nat.eqb (fst a) i then (i, n) else a) (r_atoms s))
                  (upd (upd (r_map s) n (Some i)) o None) (r_fresh s))
  end.

Definition res_has (n : string) (s : res) : bool :=
  match r_map s n with Some _ => true | None => false end.

Definition res_names (s : res) : list string := map snd (r_atoms s).

(* ---- layer 2: guarded operations on name lists --------------------------- *)

Inductive op := Create (n : string) | Remove (n : string) | Rename (o n : string).

Definition nl := list string.
Definition mem := mem_str.

Fixpoint remove_first (x : string) (l : nl) : nl :=
  match l with
  | [] => []
  | y :: r => if String.eqb x y then r else y :: remove_first x r
  end.

Fixpoint replace_first (o n : string) (l : nl) : nl :=
  match l with
  | [] => []
  | y :: r => if String.eqb o y then n :: r else y :: replace_first o n r
  end.

(* names + log of the operations issued so far *)
Record W := mkW { w_names : nl; w_log : list op }.

Definition cr (n : string) (w : W) : option W :=
  if mem n (w_names w) then None
  else Some (mkW (w_names w ++ [n])%list (w_log w ++ [Create n])%list).

Definition rm (n : string) (w : W) : option W :=
  if mem n (w_names w) then Some (mkW (remove_first n (w_names w)) (w_log w ++ [Remove n])%list)
  else None.

Definition rn (o n : string) (w : W) : option W :=
  if mem o (w_names w) && negb (mem n (w_names w))
  then Some (mkW (replace_first o n (w_names w)) (w_log w ++ [Rename o n])%list)
  else None.

Definition bind {A B : Type} (x : option A) (f : A -> option B) : option B :=
  match x with Some a => f a | None => None end.
Notation "x >>= f" := (bind x f) (at level 50, left associativity).

Definition has (n : string) (w : W) : bool := mem n (w_names w).

(* apply a recorded operation (used for replaying observed traces) *)
Definition apply_op (w : W) (o : op) : option W :=
  match o with Create n => cr n w | Remove n => rm n w | Rename a b => rn a b w end.

(* ---- string helpers ------------------------------------------------------ *)

Definition slen := String.length.

Definition ends_with (suf s : string) : bool :=
  Nat.leb (slen suf) (slen s) && String.eqb (drop (slen s - slen suf) s) suf.

Definition chop (k : nat) (s : string) : string := take (slen s - k) s.

Definition FLIPs : string := "FLIP".
Definition isF (s : string) : bool := ends_with FLIPs s.
Definition unF (s : string) : string := chop 4 s.
Definition isLP (s : string) : bool := prefix_of "LP" s.

(* ---- protocol state ------------------------------------------------------ *)

(* names: residue.atoms names in order; fixed: residue.fixed is truthy;
   hl: Carboxylic.hlist (names of the atom objects, kept current);
   al: Carboxylic.atomlist (same) *)
Record pst := mkP { names : nl; fixed : bool; hl : nl; al : nl }.

Inductive outcome := Next (s : pst) (ops : list op) | Disabled | Error.

Definition fin (s : pst) (fx : bool) (h a : nl) (x : option W) : outcome :=
  match x with
  | Some w => Next (mkP (w_names w) fx h a) (w_log w)
  | None => Error
  end.

Definition start (s : pst) : W := mkW (names s) [].

(* three-valued oracle of the try_* helpers: no attempt (early return before
   anything is created), atom created and removed again, atom created and kept *)
Inductive tri := Skip | Fail | Ok.

(* ---- Flip ---------------------------------------------------------------- *)

(* Flip.__init__: a xFLIP copy for every moveable name (dict order = list order) *)
Definition flip_init (mv : nl) (w : W) : option W :=
  fold_left (fun acc m => acc >>= cr (m ++ FLIPs)) mv (Some w).

(* Flip.fix_flip(bondatom): flag = bondatom.name.endswith("FLIP") *)
Definition fix_flip (flag : bool) (w : W) : option W :=
  fold_left (fun acc a => acc >>= fun w' =>
      if isF a then
        (if flag then (if has (unF a) w' then rm (unF a) w' else Some w') else rm a w')
      else Some w') (w_names w) (Some w).

(* Flip.finalize body (when not fixed) *)
Definition flip_finalize_body (w : W) : option W :=
  fold_left (fun acc a => acc >>= fun w' =>
      if isF a then rm (unF a) w' >>= rn a (unF a) else Some w') (w_names w) (Some w).

(* second loop of Flip.complete *)
Definition flip_rename_rest (w : W) : option W :=
  fold_left (fun acc a => acc >>= fun w' =>
      if isF a then rn a (unF a) w' else Some w') (w_names w) (Some w).

(* FFix bn: fix_flip(bondatom) with bondatom.name = bn.  The callers reach it
   only for an atom of Flip.atomlist (a moveable atom or its FLIP copy) whose
   NAME is still in the residue (optimize_hydrogens checks has_atom; before
   the first fix every such atom exists). *)
Inductive flabel := FFix (bn : string) | FFinalize.

Definition flip_cands (mv : nl) : nl := (mv ++ map (fun m => (m ++ FLIPs)%string) mv)%list.

Definition flip_step (mv : nl) (s : pst) (l : flabel) : outcome :=
  match l with
  | FFix bn =>
      if negb (mem bn (flip_cands mv)) || negb (mem bn (names s)) then Disabled
      else fin s true (hl s) (al s) (fix_flip (isF bn) (start s))
  | FFinalize =>
      if fixed s then Next s []
      else fin s true (hl s) (al s) (flip_finalize_body (start s))
  end.

Definition flip_complete (s : pst) (_ : unit) : outcome :=
  let w1 := if fixed s then Some (start s) else flip_finalize_body (start s) in
  fin s true (hl s) (al s) (w1 >>= fun w => flip_rename_rest (mkW (w_names w) (w_log w))).

Definition flip_start (base mv : nl) : outcome :=
  fin (mkP base false [] []) false [] [] (flip_init mv (mkW base [])).

(* ---- Alcoholic ----------------------------------------------------------- *)

Definition count_present (l : nl) (w : W) : nat := List.length (filter (fun x => has x w) l).

(* Alcoholic.__init__ removes the hydroxyl/thiol hydrogen if present *)
Definition alc_start (h : string) (base : nl) : outcome :=
  let w := mkW base [] in
  fin (mkP base false [] []) false [] [] (if has h w then rm h w else Some w).

(* len(O.bonds): the heavy neighbour + H + lone pairs present *)
Definition alc_bonds (h : string) (w : W) : nat := 1 + count_present [h; "LP1"; "LP2"] w.

Definition in13 (n : nat) : bool := Nat.leb 1 n && Nat.leb n 3.

Definition try_create (t : tri) (n : string) (w : W) : option W :=
  match t with
  | Skip => Some w
  | Fail => cr n w >>= rm n
  | Ok => cr n w
  end.

(* Alcoholic.try_donor *)
Definition alc_try_donor (h : string) (t : tri) (w : W) : option W :=
  if has h w then Some w
  else if in13 (alc_bonds h w) then try_create t h w else Some w.

Definition lp_name (w : W) : option string :=
  if has "LP2" w then None else if has "LP1" w then Some "LP2" else Some "LP1".

(* Alcoholic.try_acceptor *)
Definition alc_try_acceptor (h : string) (t : tri) (w : W) : option W :=
  match lp_name w with
  | None => Some w
  | Some n => if in13 (alc_bonds h w) then try_create t n w else Some w
  end.

(* Alcoholic.finalize *)
Definition alc_finalize (h : string) (fx : bool) (w : W) : option W :=
  if fx then Some w
  else if has h w then Some w
  else if in13 (alc_bonds h w) then cr h w else Some w.

Definition remove_lps (w : W) : option W :=
  fold_left (fun acc a => acc >>= fun w' => if isLP a then rm a w' else Some w') (w_names w) (Some w).

Inductive alabel := ADonor (t : tri) | AAcceptor (t : tri) | AFinalize.

Definition alc_step (h : string) (s : pst) (l : alabel) : outcome :=
  match l with
  | ADonor t => fin s (fixed s) (hl s) (al s) (alc_try_donor h t (start s))
  | AAcceptor t => fin s (fixed s) (hl s) (al s) (alc_try_acceptor h t (start s))
  | AFinalize => fin s (fixed s) (hl s) (al s) (alc_finalize h (fixed s) (start s))
  end.

Definition alc_complete (h : string) (s : pst) (_ : unit) : outcome :=
  fin s true (hl s) (al s) (alc_finalize h (fixed s) (start s) >>= remove_lps).

(* ---- Water --------------------------------------------------------------- *)

Definition wat_bonds (w : W) : nat := count_present ["H1"; "H2"; "LP1"; "LP2"] w.
Definition le3 (n : nat) : bool := Nat.leb n 3.

Definition wat_hname (w : W) : option string :=
  if has "H2" w then None else if has "H1" w then Some "H2" else Some "H1".

(* Water.try_donor; with undo=true it is followed by the undo of try_both
   (remove H2 if present, else H1 if present) *)
Definition wat_try_donor (t : tri) (w : W) : option W :=
  match wat_hname w with
  | None => Some w
  | Some n => if le3 (wat_bonds w) then try_create t n w else Some w
  end.

Definition wat_try_acceptor (t : tri) (w : W) : option W :=
  match lp_name w with
  | None => Some w
  | Some n => if le3 (wat_bonds w) then try_create t n w else Some w
  end.

(* Water.finalize (recursive; at most three levels deep) *)
Fixpoint wat_finalize (fuel : nat) (fx : bool) (w : W) : option (W * bool) :=
  match fuel with
  | 0 => None
  | S f =>
      if fx then Some (w, fx)
      else if has "H2" w then Some (w, fx)
      else
        let addname := if has "H1" w then "H2" else "H1" in
        let isH1 := negb (has "H1" w) in
        match wat_bonds w with
        | 0 => cr addname w >>= wat_finalize f fx
        | 1 => cr addname w >>= fun w1 =>
                 (if isH1 then wat_finalize f fx w1 else Some (w1, fx)) >>= fun r => Some (fst r, true)
        | 2 => cr addname w >>= fun w1 => if isH1 then wat_finalize f fx w1 else Some (w1, fx)
        | 3 => cr addname w >>= fun w1 => Some (w1, fx)
        | _ => Some (w, fx)
        end
  end.

Definition fin2 (s : pst) (x : option (W * bool)) : outcome :=
  match x with
  | Some (w, fx) => Next (mkP (w_names w) fx (hl s) (al s)) (w_log w)
  | None => Error
  end.

Inductive wlabel := WDonor (t : tri) | WAcceptor (t : tri) | WFinalize.

Definition wat_step (s : pst) (l : wlabel) : outcome :=
  match l with
  | WDonor t => fin s (fixed s) (hl s) (al s) (wat_try_donor t (start s))
  | WAcceptor t => fin s (fixed s) (hl s) (al s) (wat_try_acceptor t (start s))
  | WFinalize => fin2 s (wat_finalize 4 (fixed s) (start s))
  end.

Definition wat_complete (s : pst) (_ : unit) : outcome :=
  fin2 s (wat_finalize 4 (fixed s) (start s) >>= fun r => remove_lps (fst r) >>= fun w => Some (w, snd r)).

Definition wat_start (base : nl) : outcome := Next (mkP base false [] []) [].

(* ---- Carboxylic ---------------------------------------------------------- *)

(* optinstance.map: (hname, bond) pairs; h1/o1 is the name not ending in "2" *)
Record carb := mkcarb { c_h1 : string; c_o1 : string; c_h2 : string; c_o2 : string }.

Definition c_bond (c : carb) (h : string) : string :=
  if String.eqb h (c_h1 c) then c_o1 c else c_o2 c.

(* rename keeps hlist / atomlist entries (objects) pointing at the same atoms *)
Definition ren_in (o n : string) (l : nl) : nl := map (fun x => if String.eqb x o then n else x) l.

Record cst := mkC { c_w : W; c_hl : nl; c_al : nl }.

Definition c_rn (o n : string) (s : cst) : option cst :=
  rn o n (c_w s) >>= fun w => Some (mkC w (ren_in o n (c_hl s)) (ren_in o n (c_al s))).
Definition c_rm (n : string) (s : cst) : option cst :=
  rm n (c_w s) >>= fun w => Some (mkC w (c_hl s) (c_al s)).

(* Carboxylic.__init__: ord = false: order [h1; h2], true: [h2; h1];
   lf = longflag.  The dihedral of a hydrogen is None iff the hydrogen is absent. *)
Definition carb_init_one (c : carb) (hname : string) (s : cst) : option (cst * bool) :=
  let bond := c_bond c hname in
  if negb (has hname (c_w s)) then Some (mkC (c_w s) (c_hl s) (c_al s ++ [bond])%list, false)
  else
    rn hname (hname ++ "1") (c_w s) >>= cr (hname ++ "2") >>= fun w =>
    Some (mkC w (c_hl s ++ [(hname ++ "1")%string; (hname ++ "2")%string])%list (c_al s ++ [bond])%list, true).

Definition carb_init (c : carb) (ord lf : bool) (base : nl) : option cst :=
  let order := if ord then [c_h2 c; c_h1 c] else [c_h1 c; c_h2 c] in
  let s0 := mkC (mkW base []) [] [] in
  match order with
  | a :: b :: _ =>
      carb_init_one c a s0 >>= fun r =>
        if snd r && lf then Some (fst r)
        else carb_init_one c b (fst r) >>= fun r2 => Some (fst r2)
  | _ => None
  end.

Definition swap_bond_names (s : cst) : option cst :=
  match c_al s with
  | b0 :: b1 :: _ => c_rn b0 FLIPs s >>= c_rn b1 b0 >>= c_rn FLIPs b1
  | _ => None (* IndexError *)
  end.

Definition last_is (ch : string) (s : string) : bool := ends_with ch s.

(* Carboxylic.rename(hydatom) *)
Definition carb_rename (c : carb) (hyd : string) (s : cst) : option cst :=
  if negb (has hyd (c_w s)) then Some s
  else
    let short := Nat.eqb (slen hyd) 4 in
    let hname := if short then chop 1 hyd else hyd in
    (if short then c_rn hyd hname s else Some s) >>= fun s1 =>
    match List.length (c_al s1) with
    | 2 =>
        if last_is "1" hname then c_rn hname (chop 1 hname ++ "2") s1 >>= swap_bond_names
        else Some s1
    | 1 =>
        if negb short then None (* hname unbound: UnboundLocalError *)
        else
          let hnames := [chop 1 hname ++ "1"; chop 1 hname ++ "2"] in
          let al' := fold_left (fun a hn =>
                        let b := c_bond c hn in
                        if negb (has b (c_w s1)) then a (* get_atom -> None: AttributeError; not reachable, see proofs *)
                        else if String.eqb b (hd "" a) then a else (a ++ [b])%list) hnames (c_al s1) in
          let s2 := mkC (c_w s1) (c_hl s1) al' in
          if last_is "1" hname then
            (if has (chop 1 hname ++ "2") (c_w s2) then c_rm (chop 1 hname ++ "2") s2 else Some s2) >>=
            c_rn hname (chop 1 hname ++ "2") >>= swap_bond_names
          else Some s2
    | _ => Some s1
    end.

Definition cst_of (s : pst) : cst := mkC (start s) (hl s) (al s).
Definition cfin (fx : bool) (x : option cst) : outcome :=
  match x with
  | Some s => Next (mkP (w_names (c_w s)) fx (c_hl s) (c_al s)) (w_log (c_w s))
  | None => Error
  end.

(* remove every hlist atom except [keep] from hlist and residue *)
Definition carb_keep_only (keep : option string) (s : cst) : option cst :=
  fold_left (fun acc a => acc >>= fun s' =>
      if match keep with Some k => String.eqb a k | None => false end then Some s'
      else c_rm a s' >>= fun s2 => Some (mkC (c_w s2) (remove_first a (c_hl s2)) (c_al s2)))
    (c_hl s) (Some s).

(* Carboxylic.try_acceptor when the donor/acceptor pair is a hydrogen bond;
   first = True: hyds[0] is the closer one and is eliminated *)
Definition carb_try_acceptor (c : carb) (first : bool) (s : pst) : outcome :=
  match hl s with
  | a :: b :: rest =>
      let x := cst_of s in
      let victim := if first then a else b in
      let other := if first then b else a in
      match c_rm victim x with
      | None => Error
      | Some x1 =>
          let x2 := mkC (c_w x1) (remove_first victim (c_hl x1)) (c_al x1) in
          let donorh := if has other (c_w x2) then Some other
                        else match c_hl x2 with h0 :: _ => if has h0 (c_w x2) then Some h0 else None | [] => None end in
          if Nat.eqb (List.length (c_hl x2)) 1 then
            cfin true (match donorh with Some d => carb_rename c d x2 | None => Some x2 end)
          else cfin (fixed s) (Some x2)
      end
  | _ => Next s []
  end.

(* Carboxylic.fix(donor, acc): d = the_donorhatom *)
Definition carb_fix (c : carb) (d : string) (s : pst) : outcome :=
  if fixed s then Disabled
  else if negb (mem d (hl s)) then Disabled
  else cfin true (carb_keep_only (Some d) (cst_of s) >>= carb_rename c d).

(* Carboxylic.finalize: best = bestatom (None only when hlist is empty) *)
Definition carb_finalize (c : carb) (best : option string) (s : pst) : outcome :=
  if fixed s then Next s []
  else
    match best, hl s with
    | None, _ :: _ => Disabled
    | Some b, l => if negb (mem b l) then Disabled
                   else cfin true (carb_keep_only best (cst_of s) >>= fun x =>
                                     if Nat.eqb (slen b) 4 then carb_rename c b x else Some x)
    | None, [] => cfin true (Some (cst_of s))
    end.

Inductive clabel := CAcceptor (first : bool) | CFix (d : string) | CFinalize (best : option string).

(* the candidate hydrogen names of a carboxylic instance *)
Definition carb_cands (c : carb) : nl :=
  [(c_h1 c ++ "1")%string; (c_h1 c ++ "2")%string; (c_h2 c ++ "1")%string; (c_h2 c ++ "2")%string; c_h1 c; c_h2 c].

Definition best_ok (c : carb) (b : option string) : bool :=
  match b with Some x => mem x (carb_cands c) | None => true end.

Definition carb_step (c : carb) (s : pst) (l : clabel) : outcome :=
  match l with
  | CAcceptor f => carb_try_acceptor c f s
  | CFix d => if mem d (carb_cands c) then carb_fix c d s else Disabled
  | CFinalize b => if best_ok c b then carb_finalize c b s else Disabled
  end.

(* Carboxylic.complete, then HydrogenRoutines.cleanup for this residue *)
Definition cleanup (c : carb) (w : W) : option W :=
  if has (c_h1 c) w && has (c_h2 c) w then rm (c_h1 c) w else Some w.

Definition carb_complete (c : carb) (s : pst) (best : option string) : outcome :=
  if negb (best_ok c best) then Disabled else
  let s1 := if Nat.eqb (List.length (hl s)) 2 && fixed s then mkP (names s) false (hl s) (al s) else s in
  match (if fixed s1 then Next s1 [] else carb_finalize c best s1) with
  | Next s2 ops =>
      match cleanup c (mkW (names s2) ops) with
      | Some w => Next (mkP (w_names w) (fixed s2) (hl s2) (al s2)) (w_log w)
      | None => Error
      end
  | o => o
  end.

Definition carb_start (c : carb) (ord lf : bool) (base : nl) : outcome :=
  if ord && negb lf then Disabled   (* order [h2; h1] only arises together with longflag *)
  else match carb_init c ord lf base with
       | Some s => Next (mkP (w_names (c_w s)) false (c_hl s) (c_al s)) (w_log (c_w s))
       | None => Error
       end.

(* ---- machines, runs, reachable sets -------------------------------------- *)

Section Machine.
  Variables (L C : Type).
  Variable step : pst -> L -> outcome.
  Variable complete : pst -> C -> outcome.

  Fixpoint run (s : pst) (ls : list L) : outcome :=
    match ls with
    | [] => Next s []
    | l :: r => match step s l with
                | Next s' _ => run s' r
                | o => o
                end
    end.
End Machine.

Fixpoint nl_eqb (a b : nl) : bool :=
  match a, b with
  | [], [] => true
  | x :: a', y :: b' => String.eqb x y && nl_eqb a' b'
  | _, _ => false
  end.

Definition pst_eqb (a b : pst) : bool :=
  nl_eqb (names a) (names b) && Bool.eqb (fixed a) (fixed b) && nl_eqb (hl a) (hl b) && nl_eqb (al a) (al b).

Definition memP (s : pst) (l : list pst) : bool := existsb (pst_eqb s) l.

Section Explore.
  Variables (L C : Type).
  Variable step : pst -> L -> outcome.
  Variable complete : pst -> C -> outcome.
  Variable labels : list L.
  Variable clabels : list C.
  Variable good : nl -> bool.

  Definition succs (s : pst) : list pst :=
    flat_map (fun l => match step s l with Next s' _ => [s'] | _ => [] end) labels.

  Fixpoint explore (fuel : nat) (todo seen : list pst) : list pst :=
    match fuel with
    | 0 => seen
    | S f => match todo with
             | [] => seen
             | s :: r => if memP s seen then explore f r seen
                         else explore f (succs s ++ r)%list (s :: seen)
             end
    end.

  (* certificate checks *)
  Definition closed (S : list pst) : bool :=
    forallb (fun s => forallb (fun l => match step s l with
                                        | Next s' _ => memP s' S
                                        | Disabled => true
                                        | Error => false
                                        end) labels) S.

  Definition all_good (S : list pst) : bool :=
    forallb (fun s => forallb (fun c => match complete s c with
                                        | Next s' _ => good (names s')
                                        | Disabled => true
                                        | Error => false
                                        end) clabels) S.

  (* a residue without hydrogen-bond partners is finalized and, if that fixes
     it, never completed: the finalize label alone must already be good *)
  Definition nohb_good (fl : list L) (init : pst) : bool :=
    forallb (fun l => match step init l with
                      | Next s' _ => if fixed s' then good (names s') else true
                      | Disabled => true
                      | Error => false
                      end) fl.
End Explore.

(* expected final names: same set, no duplicate, no placeholder *)
Definition placeholder (s : string) : bool :=
  isF s || isLP s || String.eqb s FLIPs.

Fixpoint nodupb (l : nl) : bool :=
  match l with [] => true | x :: r => negb (mem x r) && nodupb r end.

Definition good_names (expected : nl) (l : nl) : bool :=
  nodupb l && forallb (fun x => mem x expected) l && forallb (fun x => mem x l) expected &&
  forallb (fun x => negb (placeholder x)) l.

(* ---- instances (filled by Generated/C03Table.v) -------------------------- *)

Inductive kind := KFlip (mv : nl) | KAlc (h : string) | KWat | KCarb (c : carb).

Record instance := mkI { i_name : string; i_kind : kind; i_base : nl; i_expected : nl }.

Definition tris := [Skip; Fail; Ok].
Definition flabels (mv : nl) : list flabel := (map FFix (flip_cands mv) ++ [FFinalize])%list.
Definition alabels : list alabel := (map ADonor tris ++ map AAcceptor tris ++ [AFinalize])%list.
Definition wlabels : list wlabel := (map WDonor tris ++ map WAcceptor tris ++ [WFinalize])%list.
Definition clabels_of (c : carb) : list clabel :=
  ([CAcceptor true; CAcceptor false] ++ map CFix (carb_cands c) ++
   CFinalize None :: map (fun x => CFinalize (Some x)) (carb_cands c))%list.
Definition cbest (c : carb) : list (option string) := None :: map Some (carb_cands c).

Definition FUEL := 4000.

Definition starts (i : instance) : list outcome :=
  match i_kind i with
  | KFlip mv => [flip_start (i_base i) mv]
  | KAlc h => [alc_start h (i_base i)]
  | KWat => [wat_start (i_base i)]
  | KCarb c => [carb_start c false false (i_base i); carb_start c false true (i_base i);
                carb_start c true true (i_base i)]
  end.

Definition check_from (i : instance) (o : outcome) : bool :=
  match o with
  | Error => false
  | Disabled => true
  | Next s0 _ =>
      let g := good_names (i_expected i) in
      match i_kind i with
      | KFlip mv =>
          let S := explore _ (flip_step mv) (flabels mv) FUEL [s0] [] in
          memP s0 S && closed _ (flip_step mv) (flabels mv) S && all_good _ flip_complete [tt] g S &&
          nohb_good _ (flip_step mv) g [FFinalize] s0
      | KAlc h =>
          let S := explore _ (alc_step h) alabels FUEL [s0] [] in
          memP s0 S && closed _ (alc_step h) alabels S && all_good _ (alc_complete h) [tt] g S &&
          nohb_good _ (alc_step h) g [AFinalize] s0
      | KWat =>
          let S := explore _ wat_step wlabels FUEL [s0] [] in
          memP s0 S && closed _ wat_step wlabels S && all_good _ wat_complete [tt] g S &&
          nohb_good _ wat_step g [WFinalize] s0
      | KCarb c =>
          let S := explore _ (carb_step c) (clabels_of c) FUEL [s0] [] in
          memP s0 S && closed _ (carb_step c) (clabels_of c) S &&
          all_good _ (carb_complete c) (cbest c) g S
      end
  end.

Definition check_instance (i : instance) : bool := forallb (check_from i) (starts i).

Definition all_instances_ok (l : list instance) : bool := forallb check_instance l.

(* well-formedness of a residue for each protocol (hypothesis of the parametric theorems)
   and the expected final name list:
   Flip      - names distinct, moveable names distinct and among them, no name is a
               placeholder (ends in FLIP, starts with LP, or is "FLIP"), so no xFLIP copy
               clashes with an existing atom;
   Alcoholic - names distinct, no name is a placeholder (in particular none starts with LP,
               so LP1/LP2 are free and complete deletes nothing else), h is not one either;
   Water     - the same, and H2 is not present without H1. *)
Definition wf_flip (base mv : nl) : bool :=
  nodupb base && nodupb mv && forallb (fun m => mem m base) mv &&
  forallb (fun x => negb (placeholder x)) base.

Definition wf_alc (h : string) (base : nl) : bool :=
  nodupb base && forallb (fun x => negb (placeholder x)) base && negb (placeholder h).

Definition alc_expected (h : string) (base : nl) : nl := (remove_first h base ++ [h])%list.

Definition wf_wat (base : nl) : bool :=
  nodupb base && forallb (fun x => negb (placeholder x)) base && (negb (mem "H2" base) || mem "H1" base).

Definition wat_expected (base : nl) : nl :=
  (base ++ (if mem "H1" base then [] else ["H1"]) ++ (if mem "H2" base then [] else ["H2"]))%list.

(* a table instance meets the hypothesis of its parametric theorem and lists exactly the
   parametric expectation (Carboxylic: certificate only) *)
Definition inst_wf (i : instance) : bool :=
  match i_kind i with
  | KFlip mv => wf_flip (i_base i) mv && nl_eqb (i_expected i) (i_base i)
  | KAlc h => wf_alc h (i_base i) && nl_eqb (i_expected i) (alc_expected h (i_base i))
  | KWat => wf_wat (i_base i) && nl_eqb (i_expected i) (wat_expected (i_base i))
  | KCarb _ => true
  end.

(* ---- patch tables (Generated/C03Table.v) ---------------------------------- *)

(* Definition.patches: key, patch name, atoms added, atoms removed, applied at run time *)
Record patch := mkpatch { p_key : string; p_name : string; p_add : list string; p_remove : list string; p_runtime : bool }.

Definition is_hyd (s : string) : bool := prefix_of "H" s.          (* Atom.is_hydrogen *)
Definition heavy_removed (p : patch) : nl := filter (fun x => negb (is_hyd x)) (p_remove p).
Definition phosphate : nl := ["P"; "O1P"; "O2P"].
Definition same_set (a b : nl) : bool := forallb (fun x => mem x b) a && forallb (fun x => mem x a) b && nodupb a.

(* a run-time patch removes no heavy atom, except 5TERM which removes exactly the phosphate group *)
Definition patch_ok (p : patch) : bool :=
  if p_runtime p then
    (if String.eqb (p_key p) "5TERM" then same_set (heavy_removed p) phosphate
     else match heavy_removed p with [] => true | _ => false end)
  else true.

Definition patches_ok (l : list patch) : bool :=
  forallb patch_ok l && existsb (fun p => String.eqb (p_key p) "5TERM" && p_runtime p) l.

(* ---- trace acceptor (correspondence with real runs) ---------------------- *)

Definition op_eqb (a b : op) : bool :=
  match a, b with
  | Create x, Create y => String.eqb x y
  | Remove x, Remove y => String.eqb x y
  | Rename x1 x2, Rename y1 y2 => String.eqb x1 y1 && String.eqb x2 y2
  | _, _ => false
  end.

Fixpoint ops_eqb (a b : list op) : bool :=
  match a, b with
  | [], [] => true
  | x :: a', y :: b' => op_eqb x y && ops_eqb a' b'
  | _, _ => false
  end.

Definition show_op (o : op) : string :=
  match o with
  | Create n => "+" ++ n
  | Remove n => "-" ++ n
  | Rename a b => a ++ ">" ++ b
  end.

Definition show_ops (l : list op) : string := join " " (map show_op l).
Definition show_names (l : nl) : string := join " " l.

Definition show_outcome (o : outcome) : string :=
  match o with
  | Next s ops => "OK names=" ++ show_names (names s) ++ " fixed=" ++ (if fixed s then "1" else "0") ++
                  " hl=" ++ show_names (hl s) ++ " ops=" ++ show_ops ops
  | Disabled => "DISABLED"
  | Error => "ERROR"
  end.

(* one observed call: what the model does for that label must emit exactly
   the observed operations *)
Section Accept.
  Variable L : Type.
  Variable step : pst -> L -> outcome.

  Fixpoint accept (k : nat) (s : pst) (tr : list (L * list op)) : string + pst :=
    match tr with
    | [] => inr s
    | (l, obs) :: r =>
        match step s l with
        | Next s' ops => if ops_eqb ops obs then accept (S k) s' r
                         else inl ("REJECT step " ++ show_names [String (ascii_of_nat (48 + k)) ""] ++
                                   ": model ops [" ++ show_ops ops ++ "] observed [" ++ show_ops obs ++ "]")
        | o => inl ("REJECT step " ++ String (ascii_of_nat (48 + k)) "" ++ ": " ++ show_outcome o)
        end
    end.
End Accept.

Definition accept_all (L C : Type) (step : pst -> L -> outcome) (complete : pst -> C -> outcome)
           (st : outcome) (init_obs : list op) (tr : list (L * list op))
           (fin_ : option (C * list op)) (final_names : nl) : string :=
  match st with
  | Next s0 ops0 =>
      if negb (ops_eqb ops0 init_obs) then "REJECT init: model ops [" ++ show_ops ops0 ++ "] observed [" ++ show_ops init_obs ++ "]"
      else match accept L step 0 s0 tr with
           | inl e => e
           | inr s =>
               match fin_ with
               | None => if nl_eqb (names s) final_names then "ACCEPT " ++ show_names (names s)
                         else "REJECT final names: model [" ++ show_names (names s) ++ "]"
               | Some (c, obs) =>
                   match complete s c with
                   | Next s' ops =>
                       if negb (ops_eqb ops obs) then "REJECT complete: model ops [" ++ show_ops ops ++ "] observed [" ++ show_ops obs ++ "]"
                       else if nl_eqb (names s') final_names then "ACCEPT " ++ show_names (names s')
                       else "REJECT final names: model [" ++ show_names (names s') ++ "]"
                   | o => "REJECT complete: " ++ show_outcome o
                   end
               end
           end
  | o => "REJECT init: " ++ show_outcome o
  end.

(* layer-1 replay used by the Residue correspondence *)
Inductive rop := RCreate (n : string) | RRemove (n : string) | RRename (o n : string).

Fixpoint res_run (s : res) (l : list rop) : option res :=
  match l with
  | [] => Some s
  | RCreate n :: r => res_run (res_create n s) r
  | RRemove n :: r => match res_remove n s with Some s' => res_run s' r | None => None end
  | RRename o n :: r => match res_rename o n s with Some s' => res_run s' r | None => None end
  end.

(* after the longest prefix that does not raise *)
Fixpoint res_run_upto (s : res) (l : list rop) : res * bool :=
  match l with
  | [] => (s, true)
  | RCreate n :: r => res_run_upto (res_create n s) r
  | RRemove n :: r => match res_remove n s with Some s' => res_run_upto s' r | None => (s, false) end
  | RRename o n :: r => match res_rename o n s with Some s' => res_run_upto s' r | None => (s, false) end
  end.

Fixpoint pos_of (i : nat) (l : list (nat * string)) (k : nat) : string :=
  match l with
  | [] => "?"
  | a :: r => if Nat.eqb (fst a) i then String (ascii_of_nat (48 + k)) "" else pos_of i r (S k)
  end.

(* names in list order | for every probe name the list position of map[name] or "-" *)
Definition show_res (probes : nl) (x : res * bool) : string :=
  let s := fst x in
  (if snd x then "ok " else "KeyError ") ++ show_names (res_names s) ++ " | " ++
  join " " (map (fun p => match r_map s p with Some i => pos_of i (r_atoms s) 0 | None => "-" end) probes).

(* ---- enumeration of the reachable states with a label path to each -------
   (used by the harness to drive REAL protocol objects to every reachable
   ordered name state before complete) *)
Section Paths.
  Variable L : Type.
  Variable step : pst -> L -> outcome.
  Variable labels : list L.

  Fixpoint explore_p (fuel : nat) (todo : list (pst * list L)) (seen : list pst)
                     (out : list (pst * list L)) : list (pst * list L) :=
    match fuel with
    | 0 => out
    | S f => match todo with
             | [] => out
             | (s, p) :: r =>
                 if memP s seen then explore_p f r seen out
                 else
                   let nxt := flat_map (fun l => match step s l with
                                                 | Next s' _ => [(s', (p ++ [l])%list)]
                                                 | _ => []
                                                 end) labels in
                   explore_p f (r ++ nxt)%list (s :: seen) ((s, p) :: out)
             end
    end.

  Definition paths_from (o : outcome) : list (pst * list L) :=
    match o with
    | Next s0 _ => rev (explore_p (FUEL * 8) [(s0, [])] [] [])
    | _ => []
    end.

  Definition show_paths (showl : L -> string) (l : list (pst * list L)) : string :=
    join "|" (map (fun sp => join "," (map showl (snd sp)) ++ "=" ++ show_names (names (fst sp)) ++
                             (if fixed (fst sp) then "!" else "")) l).
End Paths.

Definition show_tri (t : tri) : string := match t with Skip => "Skip" | Fail => "Fail" | Ok => "Ok" end.
Definition show_flabel (l : flabel) : string := match l with FFix b => "X:" ++ b | FFinalize => "F" end.
Definition show_alabel (l : alabel) : string :=
  match l with ADonor t => "D:" ++ show_tri t | AAcceptor t => "A:" ++ show_tri t | AFinalize => "F" end.
Definition show_wlabel (l : wlabel) : string :=
  match l with WDonor t => "D:" ++ show_tri t | WAcceptor t => "A:" ++ show_tri t | WFinalize => "F" end.
Definition show_clabel (l : clabel) : string :=
  match l with
  | CAcceptor b => if b then "A:first" else "A:second"
  | CFix d => "X:" ++ d
  | CFinalize None => "F:"
  | CFinalize (Some b) => "F:" ++ b
  end.

Definition instance_paths (i : instance) : list string :=
  match i_kind i with
  | KFlip mv => map (fun o => show_paths _ show_flabel (paths_from _ (flip_step mv) (flabels mv) o)) (starts i)
  | KAlc h => map (fun o => show_paths _ show_alabel (paths_from _ (alc_step h) alabels o)) (starts i)
  | KWat => map (fun o => show_paths _ show_wlabel (paths_from _ wat_step wlabels o)) (starts i)
  | KCarb c => map (fun o => show_paths _ show_clabel (paths_from _ (carb_step c) (clabels_of c) o)) (starts i)
  end.

(* ---- Biomolecule.repair_heavy and add_hydrogens at name level ---------------
   One residue: [ns] = its ordered atom names, [ref] = residue.reference.map keys in order
   (with the pseudo atoms N+1 / C-1 of the PEPTIDE patch).  Whether three of
   get_nearest_bonds(atom) are present is [feas atom current_names]; whether a hydrogen can
   be placed (rebuild_tetrahedral or three neighbours) is [hfeas]. *)

Definition is_pseudo (s : string) : bool := String.eqb s "N+1" || String.eqb s "C-1".

(* the OP1/O1P, OP2/O2P aliasing of num_missing_heavy and of the extra-atom loop *)
Definition phos_alias (r : string) (ns : nl) : bool :=
  (String.eqb r "O1P" && mem "OP1" ns) || (String.eqb r "O2P" && mem "OP2" ns).
Definition keep_alias (a : string) (cur : nl) : bool :=
  ((String.eqb a "O1P" || String.eqb a "OP1") && mem "OP1" cur) ||
  ((String.eqb a "O2P" || String.eqb a "OP2") && mem "OP2" cur).

Inductive rres := RDone (w : W) (logged : nl) | RValueError (missing : nl) | ROutOfFuel | RAnomaly.

Section Repair.
  Variable ref : nl.
  Variable feas : string -> nl -> bool.

  (* residue.missing as set by num_missing_heavy *)
  Definition missing_heavy (ns : nl) : nl :=
    filter (fun r => negb (is_hyd r) && negb (is_pseudo r) && negb (phos_alias r ns) && negb (mem r ns)) ref.

  (* the extra-atom loop over list(residue.atoms); second component: names logged
     "Extra atom ... Deleted this atom." *)
  Fixpoint drop_extras (todo : nl) (w : W) (logged : nl) : option (W * nl) :=
    match todo with
    | [] => Some (w, logged)
    | a :: r =>
        if keep_alias a (w_names w) then drop_extras r w logged
        else if negb (mem a ref) then
          match rm a w with
          | Some w' => drop_extras r w' (logged ++ [a])%list
          | None => None
          end
        else drop_extras r w logged
    end.

  Fixpoint seen_get (m : list (string * nat)) (k : string) : nat :=
    match m with [] => 0 | (k', v) :: r => if String.eqb k k' then v else seen_get r k end.
  Fixpoint seen_set (m : list (string * nat)) (k : string) (v : nat) : list (string * nat) :=
    match m with
    | [] => [(k, v)]
    | (k', v') :: r => if String.eqb k k' then (k, v) :: r else (k', v') :: seen_set r k v
    end.

  (* the while loop: pop(0); rebuilt when three neighbours exist, else counted in seenmap,
     re-queued, and ValueError once its count exceeds nummissing *)
  Fixpoint rebuild (fuel nummissing : nat) (missing : nl) (seen : list (string * nat)) (w : W) (logged : nl) : rres :=
    match fuel with
    | 0 => ROutOfFuel
    | S f =>
        match missing with
        | [] => RDone w logged
        | a :: rest =>
            if feas a (w_names w) then
              match cr a w with
              | Some w' => rebuild f nummissing rest seen w' logged
              | None => RAnomaly
              end
            else
              let c := S (seen_get seen a) in
              let missing' := (rest ++ [a])%list in
              if Nat.ltb nummissing c then RValueError missing'
              else rebuild f nummissing missing' (seen_set seen a c) w logged
        end
    end.

  Definition repair_fuel (n : nat) : nat := n * n + n + 1.

  (* repair_heavy for one residue; any_missing = (total_missing > 0) for the whole molecule *)
  Definition repair_heavy (any_missing : bool) (ns : nl) : rres :=
    if negb any_missing then RDone (mkW ns []) []
    else match drop_extras ns (mkW ns []) [] with
         | None => RAnomaly
         | Some (w, logged) =>
             let miss := missing_heavy ns in
             rebuild (repair_fuel (List.length miss)) (List.length miss) miss [] w logged
         end.

  (* add_hydrogens for one residue: template hydrogens not present are built, in
     reference order; ssb = CYS with ss_bonded (HG is skipped) *)
  Variable hfeas : string -> nl -> bool.
  Definition add_hydrogens (ssb : bool) (w : W) : option W :=
    fold_left (fun acc r => acc >>= fun w' =>
        if is_hyd r && negb (has r w') && negb (ssb && String.eqb r "HG")
        then (if hfeas r (w_names w') then cr r w' else Some w')
        else Some w') ref (Some w).
End Repair.

(* executable feasibility: three of get_nearest_bonds(atom) present; pn / pc = the
   neighbouring residue's N / C is linked (residue.peptide_n / peptide_c) *)
Definition feas_tab (nearest : list (string * nl)) (pn pc : bool) (a : string) (cur : nl) : bool :=
  let nb := match find (fun p => String.eqb (fst p) a) nearest with Some p => snd p | None => [] end in
  Nat.leb 3 (List.length (filter (fun b => if String.eqb b "N+1" then pn else if String.eqb b "C-1" then pc else mem b cur) nb)).

Definition show_rres (r : rres) : string :=
  match r with
  | RDone w logged => "DONE " ++ show_names (w_names w) ++ " | logged " ++ show_names logged
  | RValueError m => "ValueError " ++ show_names m
  | ROutOfFuel => "OUT-OF-FUEL"
  | RAnomaly => "ANOMALY"
  end.

(* template table entry: name, reference names in order, nearest-bond lists *)
Record rtemplate := mkRT { rt_name : string; rt_ref : nl; rt_nearest : list (string * nl) }.

Definition heavy_of (ref : nl) : nl := filter (fun r => negb (is_hyd r) && negb (is_pseudo r)) ref.
Definition backbone4 : nl := ["N"; "CA"; "C"; "O"].

(* with the whole side chain missing (only N, CA, C, O given, no neighbour residues, no
   hydrogens) the loop rebuilds every heavy atom of the template: it cannot get stuck *)
Definition rebuild_from_backbone_ok (t : rtemplate) : bool :=
  let ns := filter (fun x => mem x (rt_ref t)) backbone4 in
  match repair_heavy (rt_ref t) (feas_tab (rt_nearest t) false false) true ns with
  | RDone w _ => forallb (fun x => mem x (w_names w)) (heavy_of (rt_ref t)) && nodupb (w_names w)
  | _ => false
  end.

(* ... and likewise when any single side-chain heavy atom is missing *)
Definition rebuild_single_ok (t : rtemplate) : bool :=
  forallb (fun a =>
      if mem a backbone4 then true
      else match repair_heavy (rt_ref t) (feas_tab (rt_nearest t) false false) true (remove_first a (heavy_of (rt_ref t))) with
           | RDone w _ => mem a (w_names w) && nodupb (w_names w)
           | _ => false
           end) (heavy_of (rt_ref t)).

Definition rtemplates_ok (l : list rtemplate) : bool :=
  forallb (fun t => rebuild_from_backbone_ok t && rebuild_single_ok t) l.

(* ---- the default pipeline for ONE residue, at name level ---------------------
   input names -> patches applied by set_termini (removals, alternate-name renames) ->
   repair_heavy -> later patches (CYX, pKa states: hydrogens only) -> add_hydrogens ->
   the optimisation protocol of the residue's kind (any oracle answers) -> cleanup ->
   HIS.set_state's hydrogen removal -> partition by "the force field has an entry" ->
   written names.  --clean stops after the first patches and prints every atom;
   --assign-only skips repair, hydrogens and optimisation. *)

(* Biomolecule.apply_patch on the residue's atoms: patch.remove (if present), then the
   patch.altnames renames in atom-list order *)
Record patchfx := mkPF { pf_remove : nl; pf_alt : list (string * string) }.

Fixpoint alt_of (a : string) (l : list (string * string)) : option string :=
  match l with [] => None | (o, n) :: r => if String.eqb a o then Some n else alt_of a r end.

Definition apply_patchfx (w : W) (p : patchfx) : option W :=
  fold_left (fun acc r => acc >>= fun w' => if has r w' then rm r w' else Some w') (pf_remove p) (Some w) >>= fun w1 =>
  fold_left (fun acc a => acc >>= fun w' => match alt_of a (pf_alt p) with Some n => rn a n w' | None => Some w' end)
            (w_names w1) (Some w1).

Definition apply_patches (ps : list patchfx) (w : W) : option W :=
  fold_left (fun acc p => acc >>= fun w' => apply_patchfx w' p) ps (Some w).

Inductive pkind := PNone | PFlip (mv : nl) | PAlc (h : string) | PWat | PCarb (c : carb) (ord lf : bool).
Inductive plabels := LNone | LFlip (ls : list flabel) | LAlc (ls : list alabel) | LWat (ls : list wlabel)
                   | LCarb (ls : list clabel) (best : option string).
Inductive presult := POk (l : nl) | PDisabled | PErr.

Definition after (o : outcome) (k : pst -> outcome) : presult :=
  match o with
  | Next s _ => match k s with Next s' _ => POk (names s') | Disabled => PDisabled | Error => PErr end
  | Disabled => PDisabled
  | Error => PErr
  end.

(* the optimisation object of the residue: constructed on the current names, driven by the
   label list, then completed *)
Definition proto_stage (k : pkind) (ls : plabels) (l : nl) : presult :=
  match k, ls with
  | PNone, _ => POk l
  | PFlip mv, LFlip x =>
      match flip_start l mv with
      | Next s0 _ => after (run _ (flip_step mv) s0 x) (fun s => flip_complete s tt)
      | Disabled => PDisabled | Error => PErr
      end
  | PAlc h, LAlc x =>
      match alc_start h l with
      | Next s0 _ => after (run _ (alc_step h) s0 x) (fun s => alc_complete h s tt)
      | Disabled => PDisabled | Error => PErr
      end
  | PWat, LWat x =>
      match wat_start l with
      | Next s0 _ => after (run _ wat_step s0 x) (fun s => wat_complete s tt)
      | Disabled => PDisabled | Error => PErr
      end
  | PCarb c ord lf, LCarb x best =>
      match carb_start c ord lf l with
      | Next s0 _ => after (run _ (carb_step c) s0 x) (fun s => carb_complete c s best)
      | Disabled => PDisabled | Error => PErr
      end
  | _, _ => PDisabled
  end.

(* HydrogenRoutines.cleanup for this residue (cl = its carboxylic hydrogens, if ASH/GLH) *)
Definition cleanup_names (cl : option carb) (l : nl) : nl :=
  match cl with
  | Some c => if mem (c_h1 c) l && mem (c_h2 c) l then remove_first (c_h1 c) l else l
  | None => l
  end.

(* HIS.set_state of a neutral histidine: Some true = HE2 is removed (if present),
   Some false = HD1 is removed (if present); None = not a neutral histidine *)
Definition his_names (his : option bool) (l : nl) : nl :=
  match his with
  | Some true => if mem "HE2" l then remove_first "HE2" l else l
  | Some false => if mem "HD1" l then remove_first "HD1" l else l
  | None => l
  end.

Inductive pmode := MFull (opt : bool) | MAssignOnly | MClean.

Inductive pres := PRes (final written unassigned logged : nl) | PFail (why : string).

Definition show_pres (r : pres) : string :=
  match r with
  | PRes f w u lg => "OK final=" ++ show_names f ++ " | written=" ++ show_names w ++ " | unassigned=" ++ show_names u ++
                     " | logged=" ++ show_names lg
  | PFail why => "FAIL " ++ why
  end.

Section Pipeline.
  Variable ref : nl.                              (* final reference names *)
  Variables feas hfeas : string -> nl -> bool.    (* placement oracles *)
  Variable entry : string -> bool.                (* the force field has parameters for (ffname, name) *)

  Definition partition (l lg : nl) : pres :=
    PRes l (filter entry l) (filter (fun x => negb (entry x)) l) lg.

  Definition pipeline_names (mode : pmode) (ps1 ps2 : list patchfx) (any_missing ssb : bool)
             (k : pkind) (ls : plabels) (cl : option carb) (his : option bool) (ns : nl) : pres :=
    match apply_patches ps1 (mkW ns []) with
    | None => PFail "patch (termini)"
    | Some w0 =>
        match mode with
        | MClean => PRes (w_names w0) (w_names w0) [] []
        | MAssignOnly =>
            match apply_patches ps2 w0 with
            | None => PFail "patch (states)"
            | Some w1 => partition (his_names his (w_names w1)) []
            end
        | MFull opt =>
            match repair_heavy ref feas any_missing (w_names w0) with
            | RDone w1 lg =>
                match apply_patches ps2 w1 with
                | None => PFail "patch (states)"
                | Some w2 =>
                    match add_hydrogens ref hfeas ssb w2 with
                    | None => PFail "add_hydrogens"
                    | Some w3 =>
                        let k' := if opt then k else match k with PWat => PWat | _ => PNone end in
                        match proto_stage k' ls (w_names w3) with
                        | POk l4 => partition (his_names his (cleanup_names cl l4)) lg
                        | PDisabled => PFail "oracle stream does not fit the protocol"
                        | PErr => PFail "protocol error"
                        end
                    end
                end
            | RValueError m => PFail ("ValueError " ++ show_names m)
            | ROutOfFuel => PFail "out of fuel"
            | RAnomaly => PFail "repair anomaly"
            end
        end
    end.
End Pipeline.

(* ---- statement-level definitions of the end-to-end theorem ------------------- *)

(* the atoms the (final) reference asks for: pseudo atoms N+1 / C-1 excepted; the HG of a
   bridged cysteine is not built (it stays only if the input had it) *)
Definition ref_atoms (ref : nl) (ssb : bool) (l0 : nl) : nl :=
  filter (fun x => negb (is_pseudo x) && negb (ssb && String.eqb x "HG" && negb (mem x l0))) ref.

(* the optimisation actually run: with --noopt only waters are optimised *)
Definition eff_kind (opt : bool) (k : pkind) : pkind :=
  if opt then k else match k with PWat => PWat | _ => PNone end.

Definition expected_of (k : pkind) (l : nl) : nl :=
  match k with
  | PNone => l
  | PFlip _ => l
  | PAlc h => alc_expected h l
  | PWat => wat_expected l
  | PCarb c _ _ => (filter (fun x => negb (String.eqb x (c_h1 c)) && negb (String.eqb x (c_h2 c))) l ++ [c_h2 c])%list
  end.

(* decidable guard on the residue after the terminus patches (l0) *)
Definition wf_input (ref l0 : nl) (any_missing : bool) : bool :=
  nodupb l0 && nodupb ref && negb (mem "OP1" l0) && negb (mem "OP2" l0) &&
  forallb (fun x => negb (is_pseudo x)) l0 &&
  forallb (fun x => negb (placeholder x)) ref &&
  (any_missing || (forallb (fun x => mem x ref) l0 &&
                   match missing_heavy ref l0 with [] => true | _ => false end)).

(* ... and on the protocol parameters, relative to the atoms R present when it starts *)
Definition wf_kind (k : pkind) (R : nl) : bool :=
  match k with
  | PNone => true
  | PFlip mv => nodupb mv && forallb (fun m => mem m R) mv
  | PAlc h => negb (placeholder h)
  | PWat => negb (mem "H2" R) || mem "H1" R
  | PCarb _ _ _ => false   (* carboxylic: per table instance, see C03_pipeline_carboxylic_partial *)
  end.

Definition expected_final (opt : bool) (k : pkind) (cl : option carb) (his : option bool) (R : nl) : nl :=
  his_names his (cleanup_names cl (expected_of (eff_kind opt k) R)).

(* ---- concrete pipeline cases (Generated/C03Pipe.v): default options, nothing missing ---- *)
Record pcase := mkPC { pc_name : string; pc_ffname : string; pc_ref : nl; pc_ps1 : list patchfx; pc_ns : nl;
                       pc_ssb : bool; pc_kind : pkind; pc_cl : option carb; pc_his : option bool }.

Definition pcase_expected (c : pcase) : option nl :=
  match apply_patches (pc_ps1 c) (mkW (pc_ns c) []) with
  | Some w0 => Some (expected_final true (pc_kind c) (pc_cl c) (pc_his c) (ref_atoms (pc_ref c) (pc_ssb c) (w_names w0)))
  | None => None
  end.

(* everything the end-to-end theorem asks of the case, except the force-field entries *)
Definition pcase_guard (c : pcase) : bool :=
  match apply_patches (pc_ps1 c) (mkW (pc_ns c) []) with
  | Some w0 =>
      wf_input (pc_ref c) (w_names w0) false &&
      wf_kind (pc_kind c) (ref_atoms (pc_ref c) (pc_ssb c) (w_names w0)) &&
      match pc_cl c with Some x => is_hyd (c_h1 x) | None => true end
  | None => false
  end.

(* the final state of the case is fully parameterised by the predicate *)
Definition pcase_entries (entry : string -> bool) (c : pcase) : bool :=
  match pcase_expected c with Some e => forallb entry e | None => false end.

(* ---- the residue constructors (Amino / Nucleic / WAT __init__) -----------------
   for each input record in file order: the name is first replaced by its canonical
   spelling (reference.altnames), THEN tested against the atoms already taken; a record
   whose canonical name is already present is ignored (alternate locations, repeated
   records, alias + canonical spelling of the same atom) *)
Definition canon (alt : list (string * string)) (n : string) : string :=
  match alt_of n alt with Some c => c | None => n end.

Definition init_step (alt : list (string * string)) (acc : nl) (n : string) : nl :=
  let c := canon alt n in if mem c acc then acc else (acc ++ [c])%list.

Definition residue_init (alt : list (string * string)) (recs : nl) : nl := fold_left (init_step alt) recs [].

(* the same on the object-list + dict layer *)
Definition res_init_step (alt : list (string * string)) (s : res) (n : string) : res :=
  let c := canon alt n in if res_has c s then s else res_create c s.

Definition res_init (alt : list (string * string)) (recs : nl) : res := fold_left (res_init_step alt) recs res_empty.

(* first occurrences, in order *)
Fixpoint first_occ (seen l : nl) : nl :=
  match l with
  | [] => []
  | x :: r => if mem x seen then first_occ seen r else x :: first_occ (seen ++ [x])%list r
  end.

(* ---- Biomolecule.set_termini: splitting a chain at hidden chain ends ----------------
   a residue that carries a terminus marker (amino acid with OXT, nucleotide with H3T / a
   name ending in 3) without being the chain's last residue ends a strand: the residues up
   to and including it move to a new chain.  [mark] = "ends a strand". *)
Section Split.
  Variable A : Type.
  Variable mark : A -> bool.
  Fixpoint split_at (cur : list A) (rs : list A) : list (list A) :=
    match rs with
    | [] => match cur with [] => [] | _ => [cur] end
    | r :: rest => if mark r then (cur ++ [r])%list :: split_at [] rest else split_at (cur ++ [r])%list rest
    end.
End Split.
