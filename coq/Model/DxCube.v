(* Model of pdb2pqr.io.read_dx and pdb2pqr.io.write_cube (C18).

   Text level: a DX file is a list of lines; each line is split with
   str.split(); the first word dispatches.  Conversions int()/float() and the
   three format specs are Section variables (oracles, see DESIGN 7): the model
   is about which token goes where, in which order, on which line. *)
From Coq Require Import String Ascii List Arith NArith ZArith Lia Bool.
From PV Require Import Lib.Strings.
Import ListNotations.
Local Open Scope string_scope.

Section DxCube.
  Variable V : Type.                 (* python float *)
  Variable pfloat : string -> V.     (* float(word) *)
  Variable pint : string -> Z.       (* int(word) *)
  Variable fmtE : V -> string.       (* f"{v:< 13.5E}" *)
  Variable fmtF : V -> string.       (* f"{v:>11.6f}" *)
  Variable fmtI : Z -> string.       (* f"{n:>4}" *)

  Record dx := mkdx {
    dx_counts : option (Z * Z * Z);
    dx_origin : option (V * V * V);
    dx_deltas : list (V * V * V);
    dx_values : list V (* in file order *)
  }.

  Definition dx0 : dx := mkdx None None [] [].

  Definition w (l : list string) (i : nat) : option string := nth_error l i.

  (* one iteration of the `for line in dx_file` loop; None = exception *)
  Definition dx_line (d : dx) (line : string) : option dx :=
    let ws := tokens line in
    match ws with
    | [] => None (* words[0] -> IndexError *)
    | k :: _ =>
        if mem_str k ["#"; "attribute"; "component"] then Some d
        else if k =? "object" then
          match w ws 1 with
          | None => None
          | Some o =>
              if o =? "1" then
                match w ws 5, w ws 6, w ws 7 with
                | Some a, Some b, Some c =>
                    Some (mkdx (Some (pint a, pint b, pint c)) (dx_origin d) (dx_deltas d) (dx_values d))
                | _, _, _ => None
                end
              else Some d
          end
        else if k =? "origin" then
          match w ws 1, w ws 2, w ws 3 with
          | Some a, Some b, Some c =>
              Some (mkdx (dx_counts d) (Some (pfloat a, pfloat b, pfloat c)) (dx_deltas d) (dx_values d))
          | _, _, _ => None
          end
        else if k =? "delta" then
          match w ws 1, w ws 2, w ws 3 with
          | Some a, Some b, Some c =>
              Some (mkdx (dx_counts d) (dx_origin d) (dx_deltas d ++ [(pfloat a, pfloat b, pfloat c)]) (dx_values d))
          | _, _, _ => None
          end
        else Some (mkdx (dx_counts d) (dx_origin d) (dx_deltas d) (dx_values d ++ map pfloat ws))
    end.

  Fixpoint read_dx_from (d : dx) (lines : list string) : option dx :=
    match lines with
    | [] => Some d
    | l :: r => match dx_line d l with None => None | Some d' => read_dx_from d' r end
    end.

  Definition read_dx (lines : list string) : option dx := read_dx_from dx0 lines.

  (* ---- write_cube ----------------------------------------------------- *)

  Record atom := mkatom { a_serial : Z; a_charge : V; a_x : V; a_y : V; a_z : V }.

  (* values[i:j] *)
  Definition lslice {A} (i j : nat) (l : list A) : list A := firstn (j - i) (skipn i l).

  (* range(0, n, 6) *)
  Fixpoint range6 (k : nat) (count : nat) : list nat :=
    match count with 0 => [] | S c => k :: range6 (k + 6) c end.

  Definition starts (n : nat) : list nat := range6 0 ((n + 5) / 6).

  (* the chunk the loop body writes at index i, and whether "\n" follows *)
  Definition chunk_at (vals : list V) (i : nat) : list V * bool :=
    if (i + 6 <? List.length vals)%nat then (lslice i (i + 6) vals, true)
    else (skipn i vals, false).

  Definition chunks (vals : list V) : list (list V * bool) :=
    map (chunk_at vals) (starts (List.length vals)).

  Definition chunk_text (c : list V * bool) : string :=
    join " " (map fmtE (fst c)) ++ (if snd c then nl else "").

  Definition vec_line (lead : string) (v : V * V * V) : string :=
    let '(a, b, c) := v in
    lead ++ " " ++ fmtF a ++ " " ++ fmtF b ++ " " ++ fmtF c ++ nl.

  Definition atom_line (a : atom) : string :=
    fmtI (a_serial a) ++ " " ++ fmtF (a_charge a) ++ " " ++ fmtF (a_x a) ++ " "
    ++ fmtF (a_y a) ++ " " ++ fmtF (a_z a) ++ nl.

  (* header part: comment, loop line, natoms+origin, three count+spacing lines,
     atoms.  None = the exceptions the code raises on missing pieces. *)
  Definition cube_header (comment : string) (d : dx) (atoms : list atom) : option (list string) :=
    match dx_origin d, dx_counts d, dx_deltas d with
    | Some o, Some (nx, ny, nz), s0 :: s1 :: s2 :: _ =>
        Some (List.app
               [(comment ++ nl)%string;
                ("OUTER LOOP: X, MIDDLE LOOP: Y, INNER LOOP: Z" ++ nl)%string;
                vec_line (fmtI (Z.of_nat (List.length atoms))) o;
                vec_line (fmtI (- nx)) s0;
                vec_line (fmtI (- ny)) s1;
                vec_line (fmtI (- nz)) s2]
               (map atom_line atoms))
    | _, _, _ => None
    end.

  Definition cube_body (d : dx) : list string := map chunk_text (chunks (dx_values d)).

  Definition write_cube (comment : string) (d : dx) (atoms : list atom) : option string :=
    match cube_header comment d atoms with
    | None => None
    | Some h => Some (String.concat "" (List.app h (cube_body d)))
    end.

End DxCube.

(* ---- executable instance used by the correspondence check --------------
   A float is represented by the token text it was read from; float() is the
   identity on that text and the two float formats are finite tables that the
   harness fills by asking Python to format float(token) (the float<->decimal
   conversions are oracles, DESIGN 7). int() and "{:>4}" are real. *)
From PV Require Import Lib.Decimal.

Definition assoc (k : string) (t : list (string * string)) : string :=
  match find (fun p => String.eqb (fst p) k) t with
  | Some p => snd p
  | None => "?" ++ k
  end.

Definition x_pint (s : string) : Z :=
  match Z_of_string s with Some z => z | None => 0%Z end.

Definition x_fmtI (z : Z) : string := rjust 4 (Z_to_string z).

Definition x_atom (a : Z * string * string * string * string) : atom string :=
  let '(s, q, x, y, z) := a in mkatom string s q x y z.

Definition run_dx2cube (tabE tabF : list (string * string)) (comment : string)
    (lines : list string) (atoms : list (Z * string * string * string * string)) : string :=
  match read_dx string (fun s => s) x_pint lines with
  | None => "EXC-read"
  | Some d =>
      match write_cube string (fun v => assoc v tabE) (fun v => assoc v tabF) x_fmtI
              comment d (map x_atom atoms) with
      | None => "EXC-write"
      | Some t => "OK:" ++ t
      end
  end.
