(* Model of the flip path of property C04: pdb2pqr/hydrogens/structures.py
   Flip.__init__ (19-102), fix_flip (191-225), finalize (227-243), complete (245-256).

   A residue is its list residue.atoms; an atom is (name, is-a-*FLIP-atom, position).

   WHAT THE CODE DOES (not what the names suggest): Flip.__init__ caches the coordinates of the
   moveable atoms, ROTATES THE ORIGINAL ATOMS by 180 degrees with Debump.set_dihedral_angle
   (newangle = 180.0 + residue.dihedrals[anglenum]) and then creates the "<name>FLIP" atoms AT THE
   CACHED, i.e. ORIGINAL, coordinates (residue.create_atom appends them to residue.atoms).  So
   the plain-named atoms are the flipped alternative and the *FLIP atoms are the input.
     fix_flip(bondatom): bondatom is a *FLIP atom -> remove the plain partner of every *FLIP atom
                         (the input coordinates survive, still named *FLIP);
                         otherwise -> remove every *FLIP atom (the residue is flipped).
     finalize():         nothing if residue.fixed; else remove the plain partner of every *FLIP
                         atom and rename the *FLIP atom to the plain name (input coordinates).
     complete():         finalize(); rename every remaining *FLIP atom to its plain name.

   The motion [Rt] applied to the moveable set is a parameter here (it is the rotation of
   Model/Quatfit.v; Proofs/Flip.v instantiates it over R with c = -1, s = 0).

   Definitions only; proofs are in Proofs/Flip.v. *)
From Coq Require Import List PArith Bool Arith ZArith String.
From Coq Require Import PrimFloat.
From PV Require Import Lib.Decimal Model.ForceField Model.Topology Model.Moves Model.Quatfit.
Import ListNotations.

Section Flip.
  Context {P : Type}.

  Record fatom := mkfatom { fa_name : id; fa_flip : bool; fa_pos : P }.

  (* residue.has_atom(name) / name + "FLIP" *)
  Definition has_atom (atoms : list fatom) (n : id) (fl : bool) : bool :=
    existsb (fun a => Pos.eqb (fa_name a) n && Bool.eqb (fa_flip a) fl) atoms.

  (* residue.get_atom(name).coords for a plain name *)
  Definition coords_of (atoms : list fatom) (n : id) : option P :=
    match find (fun a => Pos.eqb (fa_name a) n && negb (fa_flip a)) atoms with
    | Some a => Some (fa_pos a)
    | None => None
    end.

  (* moveablenames of Flip.__init__: get_moveable_names(pivot) without "HO" on a C-terminal residue *)
  Definition copy_names (HO : id) (is_c_term : bool) (M : list id) : list id :=
    if is_c_term then filter (fun n => negb (Pos.eqb n HO)) M else M.

  (* Flip.__init__: set_dihedral_angle moves every atom of get_moveable_names(pivot) (the full
     list M) by Rt; then one *FLIP atom per name of the copy list is appended, at the cached
     coordinate.  (A copy name without an atom is an AttributeError in the code: no atom here.) *)
  Definition flip_init (Rt : P -> P) (M Mc : list id) (atoms : list fatom) : list fatom :=
    (map (fun a => if negb (fa_flip a) && mem (fa_name a) M then mkfatom (fa_name a) false (Rt (fa_pos a)) else a) atoms
     ++ flat_map (fun n => match coords_of atoms n with
                           | Some p => [mkfatom n true p]
                           | None => []
                           end) Mc)%list.

  (* fix_flip: the loop over a snapshot of residue.atoms, in closed form *)
  Definition fix_flip (flag : bool) (atoms : list fatom) : list fatom :=
    if flag
    then filter (fun a => fa_flip a || negb (has_atom atoms (fa_name a) true)) atoms
    else filter (fun a => negb (fa_flip a)) atoms.

  Definition unflag (a : fatom) : fatom := mkfatom (fa_name a) false (fa_pos a).

  (* the residue with its `fixed` flag (0 = false; any other value = true) *)
  Definition fres : Type := list fatom * bool.

  Definition finalize (r : fres) : fres :=
    if snd r then r
    else (map (fun a => if fa_flip a then unflag a else a) (fix_flip true (fst r)), true).

  Definition complete (r : fres) : fres :=
    let r' := finalize r in (map unflag (fst r'), snd r').

  (* what the optimisation does with a Flip object between __init__ and complete():
     fix_flip with a *FLIP / a plain bond atom (always an atom of the object's atomlist that is
     still in the residue: optimize_hydrogens skips atoms that no longer exist), or finalize *)
  Inductive fop := FixFlip (flag : bool) | Finalize.

  (* is there still an atom the call could have been made with *)
  Definition can_fix (Mc : list id) (flag : bool) (atoms : list fatom) : bool :=
    existsb (fun a => Bool.eqb (fa_flip a) flag && mem (fa_name a) Mc) atoms.

  Definition apply_fop (Mc : list id) (r : fres) (o : fop) : fres :=
    match o with
    | FixFlip flag => if can_fix Mc flag (fst r) then (fix_flip flag (fst r), true) else r
    | Finalize => finalize r
    end.

  (* a whole life of a Flip object *)
  Definition flip_run (Rt : P -> P) (M Mc : list id) (ops : list fop) (atoms : list fatom) : fres :=
    complete (fold_left (apply_fop Mc) ops (flip_init Rt M Mc atoms, false)).

  (* the two possible results, as coordinate maps *)
  Definition moved_coords (Rt : P -> P) (M : list id) (atoms : list fatom) (n : id) : option P :=
    match coords_of atoms n with
    | Some p => Some (if mem n M then Rt p else p)
    | None => None
    end.
End Flip.

Arguments fatom : clear implicits.
Arguments fres : clear implicits.

(* ---- execution against the code (binary64) -------------------------------- *)

Local Open Scope string_scope.

Definition fpt3 : Type := float * float * float.

(* Debump.set_dihedral_angle's motion: subtract coordlist[1] (= b), quatfit.qchichange about
   c - b with the oracle values nrm = numpy.linalg.norm, c = cos, s = sin, add b back *)
Definition F_rotate (nrm c s : float) (b cc : fpt3) (p : fpt3) : fpt3 :=
  match qchichange_with FArith nrm c s (psub FArith cc b) [psub FArith p b] with
  | q :: _ => padd FArith q b
  | [] => p
  end.

Definition show_nat (n : nat) : string := Z_to_string (Z.of_nat n).

Definition feqb (x y : float) : bool :=
  (PrimFloat.is_nan x && PrimFloat.is_nan y)
  || (PrimFloat.eqb x y && Bool.eqb (PrimFloat.get_sign x) (PrimFloat.get_sign y)).

Definition fpt_eqb (p q : fpt3) : bool :=
  feqb (fst (fst p)) (fst (fst q)) && feqb (snd (fst p)) (snd (fst q)) && feqb (snd p) (snd q).

Definition fatom_eqb (a b : fatom fpt3) : bool :=
  Pos.eqb (fa_name a) (fa_name b) && Bool.eqb (fa_flip a) (fa_flip b) && fpt_eqb (fa_pos a) (fa_pos b).

Definition show_fpt (p : fpt3) : string :=
  "(" ++ show_float (fst (fst p)) ++ " " ++ show_float (snd (fst p)) ++ " " ++ show_float (snd p) ++ ")".

Definition show_fatom (a : fatom fpt3) : string :=
  Z_to_string (Zpos (fa_name a)) ++ (if fa_flip a then "FLIP" else "") ++ show_fpt (fa_pos a).

Fixpoint first_diff_atoms (i : nat) (code model : list (fatom fpt3)) : option string :=
  match code, model with
  | [], [] => None
  | x :: t1, y :: t2 =>
      if fatom_eqb x y then first_diff_atoms (S i) t1 t2
      else Some ("atom " ++ show_nat i ++ ": code " ++ show_fatom x ++ " model " ++ show_fatom y)
  | x :: _, [] => Some ("atom " ++ show_nat i ++ ": code " ++ show_fatom x ++ " model <end>")
  | [], y :: _ => Some ("atom " ++ show_nat i ++ ": code <end> model " ++ show_fatom y)
  end.

(* One observed life of a Flip object: the residue before __init__, the oracle values of the
   rotation, the axis atoms' coordinates, M / Mc, the calls made, and what residue.atoms was after
   __init__ and after complete().  "OK" or the first difference. *)
Definition check_flip (nrm c s : float) (b cc : fpt3) (M Mc : list id) (atoms0 : list (fatom fpt3))
           (ops : list fop) (c_init c_final : list (fatom fpt3)) (c_fixed : bool)
           (dihedral0 angle : float) : string :=
  let Rt := F_rotate nrm c s b cc in
  let st0 := flip_init Rt M Mc atoms0 in
  (* newangle = 180.0 + residue.dihedrals[anglenum]; set_dihedral_angle rotates by newangle - oldangle *)
  if negb (feqb (PrimFloat.sub (PrimFloat.add 180%float dihedral0) dihedral0) angle)
  then "rotation angle: code " ++ show_float angle ++ " model " ++ show_float (PrimFloat.sub (PrimFloat.add 180%float dihedral0) dihedral0)
  else if negb (feqb c (-1)%float) then "cos of the rotation angle is " ++ show_float c ++ ", not -1"
  else
  match first_diff_atoms 0 c_init st0 with
  | Some d => "after Flip.__init__: " ++ d
  | None =>
      let r := complete (fold_left (apply_fop Mc) ops (st0, false)) in
      match first_diff_atoms 0 c_final (fst r) with
      | Some d => "after complete(): " ++ d
      | None => if Bool.eqb (snd r) c_fixed then "OK" else "residue.fixed differs"
      end
  end.
