(* Model of titration-state assignment from pKa values (C06):
     pdb2pqr/biomolecule.py  Biomolecule.apply_pka_values   (decision cascade, keys, del)
     pdb2pqr/main.py         non_trivial: rows of run_propka -> the pKa dict
     pdb2pqr/aa.py           set_state of Amino/ARG/ASP/CYS/GLU/HIS/LYS/TYR/PRO (resulting ffname)
   Executable definitions only; proofs are in Proofs/Titration.v.

   The model follows the code that exists: the per-force-field guard lists
   are transcribed site by site (they differ between sites), the N+/C- keys
   use the "{resnum:>3}" layout, the side-chain key does not, keys are
   consumed with [del], and the dict built in main.py keeps only rows whose
   PROPKA label starts with the residue name. *)
From Coq Require Import String Ascii List Bool ZArith QArith PArith.
From PV Require Import Lib.Strings Lib.Decimal Model.ForceField Model.Topology Model.States.
Import ListNotations.
Local Open Scope string_scope.

(* ---- finite domains ----------------------------------------------------- *)

(* the [force_field] argument: forcefield_.name = str(args.ff); args.ff is
   lower-cased by transform_arguments unless --userff is given, in which case
   it stays the upper-case command-line value and matches none of the lists *)
Inductive ffid := Amber | Charmm | Parse | Tyl06 | Peoepb | Swanson | OtherFF.

Definition ff_eqb (a b : ffid) : bool :=
  match a, b with
  | Amber, Amber | Charmm, Charmm | Parse, Parse | Tyl06, Tyl06
  | Peoepb, Peoepb | Swanson, Swanson | OtherFF, OtherFF => true
  | _, _ => false
  end.

Definition mem_ff (f : ffid) (l : list ffid) : bool := existsb (ff_eqb f) l.

Definition ff_of_string (s : string) : ffid :=
  if String.eqb s "amber" then Amber else if String.eqb s "charmm" then Charmm
  else if String.eqb s "parse" then Parse else if String.eqb s "tyl06" then Tyl06
  else if String.eqb s "peoepb" then Peoepb else if String.eqb s "swanson" then Swanson
  else OtherFF.

(* main.transform_arguments + Forcefield.__init__: name seen by apply_pka_values *)
Definition ff_of_args (userff : bool) (ff_lower : ffid) : ffid :=
  if userff then OtherFF else ff_lower.

(* chain position = the two independent flags is_n_term / is_c_term *)
Inductive position := PosN | PosMid | PosC | PosNC.

Definition is_n_term (p : position) : bool := match p with PosN | PosNC => true | _ => false end.
Definition is_c_term (p : position) : bool := match p with PosC | PosNC => true | _ => false end.
Definition pos_of_flags (n c : bool) : position :=
  match n, c with true, true => PosNC | true, false => PosN | false, true => PosC | false, false => PosMid end.

Inductive group := GASP | GGLU | GHIS | GCYS | GTYR | GLYS | GARG | GNplus | GCminus.

Inductive patchname :=
  P_ASH | P_GLH | P_HIP | P_CYM | P_TYM | P_LYN | P_AR0 | P_NEUTRAL_NTERM | P_NEUTRAL_CTERM.

Definition patch_eqb (a b : patchname) : bool :=
  match a, b with
  | P_ASH, P_ASH | P_GLH, P_GLH | P_HIP, P_HIP | P_CYM, P_CYM | P_TYM, P_TYM | P_LYN, P_LYN
  | P_AR0, P_AR0 | P_NEUTRAL_NTERM, P_NEUTRAL_NTERM | P_NEUTRAL_CTERM, P_NEUTRAL_CTERM => true
  | _, _ => false
  end.

Definition patch_string (p : patchname) : string :=
  match p with
  | P_ASH => "ASH" | P_GLH => "GLH" | P_HIP => "HIP" | P_CYM => "CYM" | P_TYM => "TYM"
  | P_LYN => "LYN" | P_AR0 => "AR0" | P_NEUTRAL_NTERM => "NEUTRAL-NTERM"
  | P_NEUTRAL_CTERM => "NEUTRAL-CTERM"
  end.

(* what happens to one titratable group: a patch is applied, or nothing is
   (with or without a warning) *)
Inductive outcome := Patch (p : patchname) | Keep (warned : bool).

(* ---- the decision cascade of apply_pka_values ------------------------------ *)

(* [below] = (ph < value). The code tests [ph >= value] at some sites and
   [ph < value] at others; for ordered (non-NaN) floats ge = negb below. *)
Definition decide (ff : ffid) (pos : position) (g : group) (below : bool) : outcome :=
  let ge := negb below in
  let lt := below in
  match g with
  | GNplus =>
      if is_n_term pos then
        if ge then
          if mem_ff ff [Amber; Charmm; Tyl06; Peoepb; Swanson] then Keep true
          else Patch P_NEUTRAL_NTERM
        else Keep false
      else Keep false                      (* key never looked up *)
  | GCminus =>
      if is_c_term pos then
        if lt then
          if mem_ff ff [Amber; Charmm; Tyl06; Peoepb; Swanson] then Keep true
          else Patch P_NEUTRAL_CTERM
        else Keep false
      else Keep false
  | GARG =>
      if ge then
        if ff_eqb ff Parse then Patch P_AR0   (* plus the "very rare" warning, see [warnings] *)
        else Keep true
      else Keep false
  | GASP =>
      if lt then
        if is_c_term pos && mem_ff ff [Amber; Tyl06; Swanson] then Keep true
        else if is_n_term pos && mem_ff ff [Amber; Tyl06; Swanson] then Keep true
        else Patch P_ASH
      else Keep false
  | GCYS =>
      if ge then
        if mem_ff ff [Charmm; Peoepb]
           || ((is_n_term pos || is_c_term pos) && mem_ff ff [Amber; Tyl06; Swanson]) then Keep true
        else Patch P_CYM
      else Keep false
  | GGLU =>
      if lt then
        if ff_eqb ff Peoepb then Keep true
        else if is_c_term pos && mem_ff ff [Amber; Tyl06; Swanson] then Keep true
        else if is_n_term pos && mem_ff ff [Amber; Tyl06; Swanson] then Keep true
        else Patch P_GLH
      else Keep false
  | GHIS =>
      if lt then Patch P_HIP else Keep false
  | GLYS =>
      if ge then
        if mem_ff ff [Charmm; Peoepb] then Keep true
        else if mem_ff ff [Amber; Tyl06; Swanson] && is_c_term pos then Keep true
        else if mem_ff ff [Amber; Tyl06; Swanson] && is_n_term pos then Keep true
        else Patch P_LYN
      else Keep false
  | GTYR =>
      if ge then
        if mem_ff ff [Charmm; Amber; Tyl06; Peoepb; Swanson] then Keep true
        else Patch P_TYM
      else Keep false
  end.

(* number of _LOGGER.warning calls the decision makes *)
Definition warnings (o : outcome) : nat :=
  match o with
  | Keep true => 1
  | Patch P_AR0 => 1
  | _ => 0
  end.

(* ---- specification vocabulary (what the property asks for) ---------------- *)

(* the group is protonated in the residue's default (unpatched) state *)
Definition default_protonated (g : group) : bool :=
  match g with
  | GASP | GGLU | GHIS | GCminus => false     (* carboxylates, neutral HIS *)
  | GCYS | GTYR | GLYS | GARG | GNplus => true (* thiol, phenol, ammonium, guanidinium *)
  end.

(* the patch that moves the group out of its default state *)
Definition switch_patch (g : group) : patchname :=
  match g with
  | GASP => P_ASH | GGLU => P_GLH | GHIS => P_HIP | GCYS => P_CYM | GTYR => P_TYM
  | GLYS => P_LYN | GARG => P_AR0 | GNplus => P_NEUTRAL_NTERM | GCminus => P_NEUTRAL_CTERM
  end.

(* the group exists on a residue at this position *)
Definition applicable (pos : position) (g : group) : bool :=
  match g with GNplus => is_n_term pos | GCminus => is_c_term pos | _ => true end.

(* the patch wanted by "protonated exactly when pH < pKa" (None: default is right) *)
Definition wanted_patch (g : group) (below : bool) : option patchname :=
  if Bool.eqb (default_protonated g) below then None else Some (switch_patch g).

(* protonation of the group after an outcome *)
Definition protonated_after (g : group) (o : outcome) : bool :=
  match o with
  | Patch p => if patch_eqb p (switch_patch g) then negb (default_protonated g) else default_protonated g
  | Keep _ => default_protonated g
  end.

(* ---- pH / pKa ---------------------------------------------------------------- *)

Definition below (ph v : Q) : bool := negb (Qle_bool v ph).   (* ph < v *)

(* ---- keys, the dict and its consumption ---------------------------------------- *)

Record residue := mkres {
  r_amino : bool;      (* isinstance(residue, aa.Amino) *)
  r_name : string;     (* residue.name *)
  r_seq : Z;           (* residue.res_seq (int) *)
  r_chain : string;    (* residue.chain_id *)
  r_nterm : bool;
  r_cterm : bool
}.

Definition r_pos (r : residue) : position := pos_of_flags (r_nterm r) (r_cterm r).

(* f"N+  {resnum:>3} {chain_id}".strip() *)
Definition key_nterm (r : residue) : string :=
  strip ("N+  " ++ rjust 3 (Z_to_string (r_seq r)) ++ " " ++ r_chain r).
Definition key_cterm (r : residue) : string :=
  strip ("C-  " ++ rjust 3 (Z_to_string (r_seq r)) ++ " " ++ r_chain r).
(* f"{resname} {resnum} {chain_id}".strip() *)
Definition key_side (r : residue) : string :=
  strip (r_name r ++ " " ++ Z_to_string (r_seq r) ++ " " ++ r_chain r).

Definition group_of_resname (s : string) : option group :=
  if String.eqb s "ARG" then Some GARG else if String.eqb s "ASP" then Some GASP
  else if String.eqb s "CYS" then Some GCYS else if String.eqb s "GLU" then Some GGLU
  else if String.eqb s "HIS" then Some GHIS else if String.eqb s "LYS" then Some GLYS
  else if String.eqb s "TYR" then Some GTYR else None.

(* python dict str -> float, insertion ordered *)
Definition pkadic := list (string * Q).

Fixpoint sget (d : pkadic) (k : string) : option Q :=
  match d with
  | [] => None
  | (k', v) :: r => if String.eqb k k' then Some v else sget r k
  end.

Fixpoint sdel (d : pkadic) (k : string) : pkadic :=
  match d with
  | [] => []
  | (k', v) :: r => if String.eqb k k' then r else (k', v) :: sdel r k
  end.

Fixpoint sset (d : pkadic) (k : string) (v : Q) : pkadic :=
  match d with
  | [] => [(k, v)]
  | (k', v') :: r => if String.eqb k k' then (k, v) :: r else (k', v') :: sset r k v
  end.

(* one "if key in pkadic: value = pkadic[key]; del pkadic[key]; ..." site *)
Record item := mkitem { i_key : string; i_group : option group; i_pos : position }.

(* the sites a residue visits, in code order: N+ (if is_n_term), C- (if
   is_c_term), side chain (always; resnames outside the seven still consume) *)
Definition items_of (r : residue) : list item :=
  if r_amino r then
    ((if r_nterm r then [mkitem (key_nterm r) (Some GNplus) (r_pos r)] else []) ++
     (if r_cterm r then [mkitem (key_cterm r) (Some GCminus) (r_pos r)] else []) ++
     [mkitem (key_side r) (group_of_resname (r_name r)) (r_pos r)])%list
  else [].

Inductive result :=
  | Absent                                   (* key not in the dict *)
  | Consumed                                 (* key deleted, residue name not titratable: nothing done *)
  | Decided (g : group) (o : outcome).

(* the decision a site would take on the dict [d] *)
Definition site_result (ff : ffid) (ph : Q) (d : pkadic) (it : item) : result :=
  match sget d (i_key it) with
  | None => Absent
  | Some v =>
      match i_group it with
      | None => Consumed
      | Some g => Decided g (decide ff (i_pos it) g (below ph v))
      end
  end.

Definition site_dict (d : pkadic) (it : item) : pkadic :=
  match sget d (i_key it) with None => d | Some _ => sdel d (i_key it) end.

Fixpoint run_items (ff : ffid) (ph : Q) (d : pkadic) (its : list item) : list result * pkadic :=
  match its with
  | [] => ([], d)
  | it :: rest =>
      let (rs, d') := run_items ff ph (site_dict d it) rest in
      (site_result ff ph d it :: rs, d')
  end.

(* Biomolecule.apply_pka_values: per-site results in residue order, and the
   dict that is left (each leftover key is warned about) *)
Definition apply_pka_values (ff : ffid) (ph : Q) (d : pkadic) (rs : list residue) : list result * pkadic :=
  run_items ff ph d (flat_map items_of rs).

Definition leftover_warnings (d : pkadic) : nat :=
  match d with [] => 0 | _ => S (List.length d) end.

(* ---- main.non_trivial: rows of run_propka -> dict ------------------------------ *)

Record pkarow := mkpkarow {
  row_resname : string; row_resnum : Z; row_chain : string; row_label : string; row_pka : Q
}.

(* f"{row['res_name']} {row['res_num']} {row['chain_id']}"  (not stripped) *)
Definition row_key (r : pkarow) : string :=
  row_resname r ++ " " ++ Z_to_string (row_resnum r) ++ " " ++ row_chain r.

(* dict comprehension with the filter row["group_label"].startswith(row["res_name"]) *)
Definition dict_of_rows (rows : list pkarow) : pkadic :=
  fold_left (fun d r => if prefix_of (row_resname r) (row_label r) then sset d (row_key r) (row_pka r) else d)
            rows [].

(* PROPKA's Group.label: f"{residue_type:<3s}{res_num:>4d}{chain_id:>2s}" with
   residue_type "N+" / "C-" for the termini, the residue name otherwise
   (oracle: checked against real PROPKA rows by the harness) *)
Definition propka_label (rtype : string) (num : Z) (chain : string) : string :=
  ljust 3 rtype ++ rjust 4 (Z_to_string num) ++ rjust 2 chain.

Definition pipeline (ff : ffid) (ph : Q) (rows : list pkarow) (rs : list residue) : list result * pkadic :=
  apply_pka_values ff ph (dict_of_rows rows) rs.

(* the pH on its way from the request to the comparison: argparse type=float,
   main.transform_arguments, main_driver, non_trivial hand args.ph on unchanged
   (no rounding, no clamping; check_options only rejects values outside [0, 14]).
   The identity is an OBLIGATION OF THE TIE: every end-to-end run of the check
   compares the float that reaches apply_pka_values with float(requested text). *)
Definition ph_of_args (requested : Q) : Q := requested.

Definition run_titration (ff : ffid) (requested : Q) (rows : list pkarow) (rs : list residue) : list result * pkadic :=
  pipeline ff (ph_of_args requested) rows rs.

(* ---- resulting state name (aa.py set_state), local C02-style naming ---------- *)

Inductive rtype :=
  ALA | ARG | ASN | ASP | CYS | GLN | GLU | GLY | HIS | ILE
| LEU | LYS | MET | PHE | PRO | SER | THR | TRP | TYR | VAL.

Definition all_rtypes : list rtype :=
  [ALA; ARG; ASN; ASP; CYS; GLN; GLU; GLY; HIS; ILE; LEU; LYS; MET; PHE; PRO; SER; THR; TRP; TYR; VAL].

Definition rtype_name (t : rtype) : string :=
  match t with
  | ALA => "ALA" | ARG => "ARG" | ASN => "ASN" | ASP => "ASP" | CYS => "CYS" | GLN => "GLN"
  | GLU => "GLU" | GLY => "GLY" | HIS => "HIS" | ILE => "ILE" | LEU => "LEU" | LYS => "LYS"
  | MET => "MET" | PHE => "PHE" | PRO => "PRO" | SER => "SER" | THR => "THR" | TRP => "TRP"
  | TYR => "TYR" | VAL => "VAL"
  end.

Definition side_group (t : rtype) : option group :=
  match t with
  | ARG => Some GARG | ASP => Some GASP | CYS => Some GCYS | GLU => Some GGLU
  | HIS => Some GHIS | LYS => Some GLYS | TYR => Some GTYR | _ => None
  end.

Definition has_patch (p : patchname) (ps : list patchname) : bool := existsb (patch_eqb p) ps.

(* the subclass part of set_state. A free cysteine (HG present, not SS
   bonded) is assumed; neutral HIS ends as HID or HIE depending on the
   hydrogen-bond optimisation, so the result is a list of alternatives *)
Definition base_names (t : rtype) (ps : list patchname) : list string :=
  match t with
  | ARG => [if has_patch P_AR0 ps then "AR0" else "ARG"]
  | ASP => [if has_patch P_ASH ps then "ASH" else "ASP"]
  | CYS => [if has_patch P_CYM ps then "CYM" else "CYS"]
  | GLU => [if has_patch P_GLH ps then "GLH" else "GLU"]
  | HIS => if has_patch P_HIP ps then ["HIP"] else ["HID"; "HIE"]
  | LYS => [if has_patch P_LYN ps then "LYN" else "LYS"]
  | TYR => [if has_patch P_TYM ps then "TYM" else "TYR"]
  | _ => [rtype_name t]
  end.

(* Amino.set_state: "if is_n_term ... elif is_c_term"; PRO.set_state ignores NEUTRAL-NTERM *)
Definition term_prefix (t : rtype) (pos : position) (ps : list patchname) : string :=
  if is_n_term pos then
    match t with
    | PRO => "N"
    | _ => if has_patch P_NEUTRAL_NTERM ps then "NEUTRAL-N" else "N"
    end
  else if is_c_term pos then
    (if has_patch P_NEUTRAL_CTERM ps then "NEUTRAL-C" else "C")
  else "".

Definition ffname_after (t : rtype) (pos : position) (ps : list patchname) : list string :=
  map (fun b => term_prefix t pos ps ++ b) (base_names t ps).

(* ---- a residue with its (up to three) pKa values, decided independently ------ *)

(* the three sites: Some b = the key is in the dict and (ph < pKa) = b *)
Record sides := mksides { s_n : option bool; s_c : option bool; s_side : option bool }.

Definition patch_of (o : outcome) : list patchname := match o with Patch p => [p] | Keep _ => [] end.

Definition site_patches (ff : ffid) (pos : position) (og : option group) (ob : option bool) : list patchname :=
  match og, ob with
  | Some g, Some b => patch_of (decide ff pos g b)
  | _, _ => []
  end.

Definition residue_patches (ff : ffid) (t : rtype) (pos : position) (s : sides) : list patchname :=
  (site_patches ff pos (if is_n_term pos then Some GNplus else None) (s_n s) ++
   site_patches ff pos (if is_c_term pos then Some GCminus else None) (s_c s) ++
   site_patches ff pos (side_group t) (s_side s))%list.

Definition residue_names (ff : ffid) (t : rtype) (pos : position) (s : sides) : list string :=
  ffname_after t pos (residue_patches ff t pos s).

Definition default_names (t : rtype) (pos : position) : list string := ffname_after t pos [].

(* the state the property asks for, regardless of what the code can do *)
Definition wanted_patches (t : rtype) (pos : position) (s : sides) : list patchname :=
  let w og ob := match og, ob with
                 | Some g, Some b => match wanted_patch g b with Some p => [p] | None => [] end
                 | _, _ => []
                 end in
  (w (if is_n_term pos then Some GNplus else None) (s_n s) ++
   w (if is_c_term pos then Some GCminus else None) (s_c s) ++
   w (side_group t) (s_side s))%list.

(* ---- support: does the force field parameterise a state? ---------------------- *)

Section Tables.
  (* generated: state name -> interned id; ids are those of names.json *)
  Variable name_ids : list (string * id).
  (* Generated.Topology.templates (Definition.map incl. pre-patched variants) *)
  Variable templates : list tres.
  (* atoms of a template that are never atoms of the finished residue: the
     link placeholders N+1 / C-1 everywhere, and per state name the alternative
     carboxyl hydrogen (ASH HD1, GLH HE1) that optimisation removes/renames *)
  Variable placeholders : list id.
  Variable never_final : list (id * list id).
  (* independent chemistry table: formal charge of each state name *)
  Variable formal_tbl : list (id * Z).
  (* the force field *)
  Variable m : ffmap.

  Fixpoint name_id (tbl : list (string * id)) (s : string) : option id :=
    match tbl with
    | [] => None
    | (k, i) :: r => if String.eqb s k then Some i else name_id r s
    end.

  Definition final_atoms (n : id) : option (list id) :=
    match find_res templates n with
    | None => None
    | Some t =>
        let nf := match dget never_final n with Some l => l | None => [] end in
        Some (filter (fun a => negb (mem_id a placeholders) && negb (mem_id a nf)) (atom_names t))
    end.

  Definition resolves (n a : id) : bool :=
    match lookup m n a with Some _ => true | None => false end.

  (* atoms of state [s] the force field cannot parameterise (None: no such state at all) *)
  Definition lost (s : string) : option (list id) :=
    match name_id name_ids s with
    | None => None
    | Some n => match final_atoms n with
                | None => None
                | Some ats => Some (filter (fun a => negb (resolves n a)) ats)
                end
    end.

  Definition formal (s : string) : option Z :=
    match name_id name_ids s with None => None | Some n => dget formal_tbl n end.

  (* formal charge of a list of alternative names: defined when they agree *)
  Definition formal_of (names : list string) : option Z :=
    match names with
    | [] => None
    | s :: rest =>
        match formal s with
        | None => None
        | Some q => if forallb (fun s' => match formal s' with Some q' => Z.eqb q q' | None => false end) rest
                    then Some q else None
        end
    end.

  (* sum of the force field's charges over the final atoms (scaled by 10^8) *)
  Definition ff_charge_sum (s : string) : option Z :=
    match name_id name_ids s with
    | None => None
    | Some n => match final_atoms n with
                | None => None
                | Some ats => Some (fold_left (fun acc a => match lookup m n a with Some e => (acc + e_q e)%Z | None => acc end) ats 0%Z)
                end
    end.
End Tables.

(* support notions over any "atoms lost" function (the one above, or a table of it) *)
Section Safety.
  Variable lostf : string -> option (list id).

  (* absolute support: every atom of the state has parameters *)
  Definition supported (s : string) : bool :=
    match lostf s with Some [] => true | _ => false end.

  (* relative support: titration loses no atom that the default state would
     not lose as well (at ordinary positions the default state loses nothing
     and this is absolute support; a one-residue chain loses OXT in every state) *)
  Definition lost_in_any (defaults : list string) (a : id) : bool :=
    existsb (fun dflt => match lostf dflt with None => true | Some l => mem_id a l end) defaults.

  Definition safe_vs (defaults targets : list string) : bool :=
    forallb (fun s => match lostf s with
                      | None => false
                      | Some l => forallb (lost_in_any defaults) l
                      end) targets.
End Safety.

(* a function on state names tabulated over the generated name list *)
Definition tabulate {V : Type} (name_ids : list (string * id)) (f : string -> option V) : list (string * option V) :=
  map (fun p => (fst p, f (fst p))) name_ids.

Fixpoint tbl_get {V : Type} (tbl : list (string * option V)) (s : string) : option V :=
  match tbl with
  | [] => None
  | (k, v) :: r => if String.eqb s k then v else tbl_get r s
  end.

(* ---- cells: one residue type at one position with its decided sites --------- *)

Definition opt_bools : list (option bool) := [None; Some true; Some false].
Definition all_sides : list sides :=
  flat_map (fun a => flat_map (fun b => map (fun c => mksides a b c) opt_bools) opt_bools) opt_bools.
Definition all_positions_ : list position := [PosN; PosMid; PosC; PosNC].
Definition res_cells : list (rtype * (position * sides)) :=
  list_prod all_rtypes (list_prod all_positions_ all_sides).

(* the patch (if any) the code applies for the side-chain site *)
Definition side_patch (ff : ffid) (t : rtype) (pos : position) (s : sides) : option patchname :=
  match site_patches ff pos (side_group t) (s_side s) with p :: _ => Some p | [] => None end.

Section Cells.
  Variable lostf : string -> option (list id).
  Variable formalf : list string -> option Z.

  (* no residue is dropped because of titration: what the code does to this
     residue loses no atom the untouched residue would not lose *)
  Definition safe_cell (ff : ffid) (t : rtype) (pos : position) (s : sides) : bool :=
    safe_vs lostf (default_names t pos) (residue_names ff t pos s).

  (* group level: the state the property WANTS (from pH vs pKa alone) *)
  Definition wanted_names (t : rtype) (pos : position) (g : group) (b : bool) : list string :=
    ffname_after t pos (match wanted_patch g b with Some p => [p] | None => [] end).

  Definition target_supported (t : rtype) (pos : position) (g : group) (b : bool) : bool :=
    safe_vs lostf (default_names t pos) (wanted_names t pos g b).

  (* formal charge of the residue after the decisions; a one-residue chain is
     named N* only, its C-terminus is added here *)
  Definition cterm_extra (pos : position) (ps : list patchname) : Z :=
    match pos with
    | PosNC => if has_patch P_NEUTRAL_CTERM ps then 0%Z else (-1)%Z
    | _ => 0%Z
    end.

  Definition residue_formal (ff : ffid) (t : rtype) (pos : position) (s : sides) : option Z :=
    match formalf (residue_names ff t pos s) with
    | None => None
    | Some q => Some (q + cterm_extra pos (residue_patches ff t pos s))%Z
    end.

  Definition residue_formalZ (ff : ffid) (t : rtype) (pos : position) (s : sides) : Z :=
    match residue_formal ff t pos s with Some q => q | None => 0%Z end.

  (* charge that reaches the output: an unsafe residue is taken to contribute
     nothing (its state name is absent from the force field: every atom unassigned) *)
  Definition residue_outZ (ff : ffid) (t : rtype) (pos : position) (s : sides) : Z :=
    if safe_cell ff t pos s then residue_formalZ ff t pos s else 0%Z.
End Cells.

(* residue carrying a group, for the group-level statements: the residue type
   itself for side chains; any type but PRO for the termini (PRO.set_state
   ignores NEUTRAL-NTERM, so a neutral N-terminal PRO has no state name) *)
Definition carriers (g : group) : list rtype :=
  match g with
  | GASP => [ASP] | GGLU => [GLU] | GHIS => [HIS] | GCYS => [CYS] | GTYR => [TYR]
  | GLYS => [LYS] | GARG => [ARG]
  | GNplus | GCminus => [ALA; ARG; ASN; ASP; CYS; GLN; GLU; GLY; HIS; ILE; LEU; LYS; MET; PHE; SER; THR; TRP; TYR; VAL]
  end.

(* ---- residues with pKa values, at a pH ------------------------------------------ *)

Record tspec := mktspec {
  ts_type : rtype; ts_pos : position;
  ts_pkn : option Q; ts_pkc : option Q; ts_pks : option Q   (* pKa of N+, C-, side chain if in the table *)
}.

Definition sides_at (ph : Q) (r : tspec) : sides :=
  mksides (option_map (below ph) (ts_pkn r)) (option_map (below ph) (ts_pkc r)) (option_map (below ph) (ts_pks r)).

Definition total_charge (resq : ffid -> rtype -> position -> sides -> Z) (ff : ffid) (ph : Q) (rs : list tspec) : Z :=
  fold_right (fun r acc => (resq ff (ts_type r) (ts_pos r) (sides_at ph r) + acc)%Z) 0%Z rs.


(* ---- the charge that reaches the output: decide -> state -> C02's state row -> force field ---- *)

(* C02's state table (Generated/States.v arows) lists, per (class, side-chain
   state, terminus kind), the ffname the real set_state produces and the
   alternatives of the FINAL atom-name set (templates + runtime patches + the
   documented wrinkles: one carboxyl H of ASH/GLH, N-terminal PRO, a one-residue
   chain carrying OXT/HO under an N* name). The output of a residue in a state is
   what Biomolecule.apply_force_field does with that atom set: an atom without
   parameters under the state name is reported missing and omitted, the others
   carry the force field's charges. *)
Definition cls_of (t : rtype) : aclass :=
  match t with
  | ALA => C_ALA | ARG => C_ARG | ASN => C_ASN | ASP => C_ASP | CYS => C_CYS | GLN => C_GLN
  | GLU => C_GLU | GLY => C_GLY | HIS => C_HIS | ILE => C_ILE | LEU => C_LEU | LYS => C_LYS
  | MET => C_MET | PHE => C_PHE | PRO => C_PRO | SER => C_SER | THR => C_THR | TRP => C_TRP
  | TYR => C_TYR | VAL => C_VAL
  end.

(* side-chain state(s) after the patches (a free cysteine; neutral HIS is HID or HIE) *)
Definition states_of (t : rtype) (ps : list patchname) : list base :=
  match t with
  | ARG => [if has_patch P_AR0 ps then B_AR0 else B_ARG]
  | ASP => [if has_patch P_ASH ps then B_ASH else B_ASP]
  | CYS => [if has_patch P_CYM ps then B_CYM else B_CYS]
  | GLU => [if has_patch P_GLH ps then B_GLH else B_GLU]
  | HIS => if has_patch P_HIP ps then [B_HIP] else [B_HID; B_HIE]
  | LYS => [if has_patch P_LYN ps then B_LYN else B_LYS]
  | TYR => [if has_patch P_TYM ps then B_TYM else B_TYR]
  | _ => [base_of_class (cls_of t)]
  end.

(* terminus kind: a one-residue chain carries both termini (its name shows only the N side) *)
Definition tkind_of (t : rtype) (pos : position) (ps : list patchname) : tkind :=
  let nn := has_patch P_NEUTRAL_NTERM ps && match t with PRO => false | _ => true end in
  let nc := has_patch P_NEUTRAL_CTERM ps in
  match pos with
  | PosMid => T_I
  | PosN => if nn then T_NN else T_N
  | PosC => if nc then T_NC else T_C
  | PosNC => match nn, nc with
             | false, false => T_N_C | false, true => T_N_NC
             | true, false => T_NN_C | true, true => T_NN_NC
             end
  end.

Definition tkind_eqb (a b : tkind) : bool :=
  match a, b with
  | T_I, T_I | T_N, T_N | T_C, T_C | T_NN, T_NN | T_NC, T_NC
  | T_N_C, T_N_C | T_N_NC, T_N_NC | T_NN_C, T_NN_C | T_NN_NC, T_NN_NC => true
  | _, _ => false
  end.

Fixpoint ids_eqb (a b : list id) : bool :=
  match a, b with
  | [], [] => true
  | x :: a', y :: b' => Pos.eqb x y && ids_eqb a' b'
  | _, _ => false
  end.

Section Output.
  Variable arows : list arow.                 (* Generated.States.arows *)
  Variable never_final : list (id * list id). (* Generated.Titration.never_final *)
  Variable m : ffmap.                         (* FF_<ff>.built *)

  Definition rows_for (t : rtype) (pos : position) (ps : list patchname) : list arow :=
    filter (fun r => base_eqb (base_of_class (ar_cls r)) (base_of_class (cls_of t))
                     && existsb (base_eqb (ar_state r)) (states_of t ps)
                     && tkind_eqb (ar_term r) (tkind_of t pos ps)) arows.

  (* the alternatives the finished residue can really have: hydrogen
     optimisation keeps the *2 carboxyl hydrogen of ASH/GLH (never_final) *)
  Definition real_alts (r : arow) : list (list id) :=
    let nf := match dget never_final (ar_ff r) with Some l => l | None => [] end in
    match filter (fun alt => negb (existsb (fun a => mem_id a nf) alt)) (ar_alts r) with
    | [] => ar_alts r
    | l => l
    end.

  (* apply_force_field on one residue: (sum of the charges of the atoms that
     have parameters under [res], the atoms that have none) *)
  Fixpoint assigned (res : id) (atoms : list id) : Z * list id :=
    match atoms with
    | [] => (0%Z, [])
    | a :: rest =>
        let (q, miss) := assigned res rest in
        match lookup m res a with
        | Some e => ((e_q e + q)%Z, miss)
        | None => (q, a :: miss)
        end
    end.

  Definition state_vals (t : rtype) (pos : position) (ps : list patchname) : list (Z * list id) :=
    flat_map (fun r => map (assigned (ar_ff r)) (real_alts r)) (rows_for t pos ps).

  (* defined when every row and alternative of the state gives the same result *)
  Definition state_out (t : rtype) (pos : position) (ps : list patchname) : option (Z * list id) :=
    match state_vals t pos ps with
    | [] => None
    | v :: rest =>
        if forallb (fun w => Z.eqb (fst v) (fst w) && ids_eqb (snd v) (snd w)) rest then Some v else None
    end.
End Output.

(* ---- show functions for the correspondence runs --------------------------------- *)

Definition show_outcome (o : outcome) : string :=
  match o with
  | Patch p => "P:" ++ patch_string p
  | Keep true => "K:w"
  | Keep false => "K:-"
  end.

Definition show_group (g : group) : string :=
  match g with
  | GASP => "ASP" | GGLU => "GLU" | GHIS => "HIS" | GCYS => "CYS" | GTYR => "TYR"
  | GLYS => "LYS" | GARG => "ARG" | GNplus => "N+" | GCminus => "C-"
  end.

Definition all_ffs : list ffid := [Amber; Charmm; Parse; Tyl06; Peoepb; Swanson; OtherFF].
Definition six_ffs : list ffid := [Amber; Charmm; Parse; Tyl06; Peoepb; Swanson].
Definition all_positions : list position := [PosN; PosMid; PosC; PosNC].
Definition all_groups : list group := [GASP; GGLU; GHIS; GCYS; GTYR; GLYS; GARG; GNplus; GCminus].

(* the whole decision table in the fixed order ff, pos, group, below=true/false;
   each cell "outcome/warnings" *)
Definition show_cell (ff : ffid) (pos : position) (g : group) (b : bool) : string :=
  let o := decide ff pos g b in
  show_outcome o ++ "/" ++ Z_to_string (Z.of_nat (warnings o)).

Definition show_decision_table : string :=
  String.concat ";"
    (flat_map (fun ff => flat_map (fun pos => flat_map (fun g =>
       [show_cell ff pos g true; show_cell ff pos g false]) all_groups) all_positions) all_ffs).

Definition show_result (r : result) : string :=
  match r with
  | Absent => "absent"
  | Consumed => "consumed"
  | Decided g o => show_group g ++ "=" ++ show_outcome o ++ "/" ++ Z_to_string (Z.of_nat (warnings o))
  end.

(* one line per run: "key>result|key>result|...#leftover keys joined by |" *)
Definition show_run (ff : ffid) (ph : Q) (d : pkadic) (rs : list residue) : string :=
  let its := flat_map items_of rs in
  let (res, d') := run_items ff ph d its in
  String.concat "|" (map (fun p => i_key (fst p) ++ ">" ++ show_result (snd p)) (combine its res))
  ++ "#" ++ String.concat "|" (map fst d').

Definition show_pipeline (ff : ffid) (ph : Q) (rows : list pkarow) (rs : list residue) : string :=
  show_run ff ph (dict_of_rows rows) rs ++ "#" ++ String.concat "|" (map fst (dict_of_rows rows)).

Definition show_names (ff : ffid) (t : rtype) (pos : position) (s : sides) : string :=
  String.concat "," (residue_names ff t pos s).
