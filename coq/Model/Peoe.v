(* Model of pdb2pqr.ligand (C16): peoe.equilibrate / electronegativity,
   mol2.Mol2Atom.formal_charge / bond_order / assign_radius,
   Mol2Molecule.assign_parameters, and the ligand transfer loop of
   main.non_trivial.  Executable definitions only; proofs are in Proofs/Peoe.v.

   Kind A (DESIGN 2.1): the numerical kernel is written once over a record of
   arithmetic operations [Arith A] and instantiated with
     - [QA]  exact rationals (kept small with Qred): proofs + exact runs,
     - [FA]  IEEE binary64 (PrimFloat): execution on molecules of any size.
   Atoms are identified by their 0-based position in the MOL2 ATOM section
   (the parser resolves bond endpoints by position and refuses duplicate names,
   so a name is a position); atom *names* do not occur in this model at all.

   Totalised operations: division by zero is 0 in Q / inf in binary64 where
   Python raises ZeroDivisionError.  It cannot happen with the code's tables
   (every normaliser chi(+1) is positive, [norms_positive] in Proofs/Peoe.v;
   scale = 1.56; the cycle loop body is not entered for num_cycles = 0). *)
From Coq Require Import String Ascii List Arith NArith ZArith QArith Qabs Qreduction Bool.
From Coq Require PrimFloat Uint63 SpecFloat FloatOps.
From PV Require Import Lib.Strings Lib.Decimal.
Import ListNotations.
Local Open Scope string_scope.

(* ---- arithmetic record -------------------------------------------------- *)

Record Arith (A : Type) := mkArith {
  a_zero : A;
  a_one : A;
  a_add : A -> A -> A;
  a_sub : A -> A -> A;
  a_mul : A -> A -> A;
  a_div : A -> A -> A;
  a_abs : A -> A;
  a_ltb : A -> A -> bool;          (* x < y *)
  a_eqb : A -> A -> bool;          (* x == y *)
  a_ofZ : Z -> A;                  (* python int -> float *)
  a_dec : Z -> positive -> A       (* the decimal literal num/den *)
}.
Arguments a_zero {A}. Arguments a_one {A}. Arguments a_add {A}. Arguments a_sub {A}.
Arguments a_mul {A}. Arguments a_div {A}. Arguments a_abs {A}. Arguments a_ltb {A}.
Arguments a_eqb {A}. Arguments a_ofZ {A}. Arguments a_dec {A}.

(* ---- the PEOE kernel: peoe.equilibrate ---------------------------------- *)

Section Kernel.
  Context {A : Type} (ops : Arith A).
  Context {T : Type} (chi : T -> A -> A).   (* electronegativity(charge, terms(type), type) *)
  Context (n : nat).                        (* number of atoms *)
  Context (ty : nat -> T).                  (* atom.type by position *)
  Context (bonds : list (nat * nat)).       (* BOND lines, endpoints by position, file order *)
  Context (ch : nat -> A).                  (* atom.charge on entry = formal charge *)
  Context (damp scale : A) (ncyc : nat).

  Local Notation zero := (a_zero ops).
  Local Notation one := (a_one ops).
  Local Notation add := (a_add ops).
  Local Notation sub := (a_sub ops).
  Local Notation mul := (a_mul ops).
  Local Notation div := (a_div ops).

  (* atom.bonded_atoms: parse_bonds appends atom2 to atom1's list and atom1 to
     atom2's list for every BOND line, in file order (a self bond twice) *)
  Definition nbrs (i : nat) : list nat :=
    flat_map (fun b => (if (fst b =? i)%nat then [snd b] else []) ++
                       (if (snd b =? i)%nat then [fst b] else []))%list bonds.

  (* damp ** k *)
  Fixpoint pow (a : A) (k : nat) : A :=
    match k with O => one | S k' => mul a (pow a k') end.

  (* math.isclose(x, 0.0) with the default rel_tol and abs_tol = 0 is x == 0 *)
  Definition is0 (x : A) : bool := a_eqb ops x zero.

  Definition atoms : list nat := seq 0 n.

  (* atom.equil_formal_charge *)
  Definition efc (i : nat) : A :=
    if is0 (ch i) then zero else mul (ch i) (div one scale).

  Definition abs_qges : A :=
    fold_left (fun acc i => if is0 (ch i) then acc else add acc (a_abs ops (ch i))) atoms zero.

  (* one term of atom1.delta_charge: atom1 = i, atom2 = j, start-of-cycle charges q *)
  Definition transfer (q : nat -> A) (k i j : nat) : A :=
    let chi1 := chi (ty i) (q i) in
    let chi2 := chi (ty j) (q j) in
    let chi_diff := sub chi2 chi1 in
    let chi_norm := if a_ltb ops chi1 chi2 then chi (ty i) (a_ofZ ops 1)
                    else chi (ty j) (a_ofZ ops 1) in
    mul (div chi_diff chi_norm) (pow damp (S k)).

  Definition delta (q : nat -> A) (k i : nat) : A :=
    fold_left (fun acc j => add acc (transfer q k i j)) (nbrs i) zero.

  (* one pass of `for icycle in range(num_cycles)`; q is read through nth:
     every index used is < n = length q (atoms = seq 0 n, bond endpoints are
     checked by [bonds_ok] before the kernel is called) *)
  Definition cycle (q : list A) (k : nat) : list A :=
    let qf := fun i => nth i q zero in
    map (fun i =>
           if is0 abs_qges then add (qf i) (delta qf k i)
           else add (qf i) (add (delta qf k i)
                                (mul (div one (a_ofZ ops (Z.of_nat ncyc))) (efc i))))
        atoms.

  Fixpoint cycles (q : list A) (k m : nat) : list A :=
    match m with O => q | S m' => cycles (cycle q k) (S k) m' end.

  Definition equilibrate : list A :=
    map (mul scale) (cycles (repeat zero n) 0 ncyc).

  Definition bonds_ok : bool :=
    forallb (fun b => ((fst b <? n)%nat && (snd b <? n)%nat)) bonds.
End Kernel.

(* ---- python string helpers ---------------------------------------------- *)

Definition upper_c (c : ascii) : ascii :=
  let k := N_of_ascii c in
  if ((97 <=? k) && (k <=? 122))%N then ascii_of_N (k - 32) else c.
Definition lower_c (c : ascii) : ascii :=
  let k := N_of_ascii c in
  if ((65 <=? k) && (k <=? 90))%N then ascii_of_N (k + 32) else c.
Fixpoint smap (f : ascii -> ascii) (s : string) : string :=
  match s with EmptyString => EmptyString | String c r => String (f c) (smap f r) end.
Definition upper := smap upper_c.
Definition lower := smap lower_c.
Definition capitalize (s : string) : string :=
  match s with EmptyString => EmptyString | String c r => String (upper_c c) (lower r) end.

(* s.split(".") as (first part, other parts) *)
Fixpoint split_dot (s : string) : string * list string :=
  match s with
  | EmptyString => (EmptyString, [])
  | String c r =>
      let (h, t) := split_dot r in
      if Ascii.eqb c "."%char then (EmptyString, h :: t) else (String c h, t)
  end.
Definition before_dot (s : string) : string := fst (split_dot s).
Definition first_char (s : string) : string :=
  match s with EmptyString => EmptyString | String c _ => String c EmptyString end.

(* parse_atoms: normalisation of the Sybyl type word; None = ValueError *)
Definition norm_type (raw : string) : option string :=
  match split_dot raw with
  | (a, []) => Some (capitalize a)
  | (a, [b]) => Some (capitalize a ++ "." ++ lower b)
  | _ => None
  end.

Fixpoint lookup {V : Type} (k : string) (l : list (string * V)) : option V :=
  match l with
  | [] => None
  | (k', v) :: r => if k =? k' then Some v else lookup k r
  end.

(* ---- tables of pdb2pqr/ligand/__init__.py and peoe.py ------------------- *)

(* RADII["zap9"], RADII["bondi"], in 1/100 Angstrom *)
Definition ZAP9 : list (string * Z) :=
  [("C", 187); ("H", 110); ("O.co2", 176); ("N", 140); ("S", 215); ("F", 240);
   ("Cl", 182); ("I", 265)]%Z.
Definition BONDI : list (string * Z) :=
  [("H", 120); ("He", 140); ("C", 170); ("N", 155); ("O", 152); ("F", 147); ("Ne", 154);
   ("Si", 210); ("P", 180); ("S", 180); ("Cl", 175); ("Ar", 188); ("As", 185); ("Se", 190);
   ("Br", 185); ("Kr", 202); ("Te", 206); ("I", 198); ("Xe", 216)]%Z.

Definition ELEMENT_BY_GROUP : list (Z * list string) :=
  [(1, ["H"; "Li"; "Na"; "K"; "Rb"; "Cs"; "Fr"]);
   (2, ["Be"; "Mg"; "Ca"; "Sr"; "Ba"; "Ra"]);
   (3, ["B"; "Al"; "Ga"; "In"; "Tl"; "Nh"]);
   (4, ["C"; "Si"; "Ge"; "Sn"; "Pb"; "Fl"]);
   (5, ["N"; "P"; "As"; "Sb"; "Bi"; "Mc"]);
   (6, ["O"; "S"; "Se"; "Te"; "Po"; "Lv"]);
   (7, ["F"; "Cl"; "Br"; "I"; "At"; "Ts"]);
   (8, ["He"; "Ne"; "Ar"; "Kr"; "Xe"; "Rn"; "Og"])]%Z.
(* VALENCE_BY_ELEMENT (value = valence electrons of the group) *)
Definition VALENCE : list (string * Z) :=
  flat_map (fun gv => map (fun e => (e, fst gv)) (snd gv)) ELEMENT_BY_GROUP.

(* NONBONDED_BY_TYPE, doubled (O.co2 is 4.5) *)
Definition NONBONDED2 : list (string * Z) :=
  [("Al", 0); ("Br", 12); ("C.1", 0); ("C.2", 0); ("C.3", 0); ("C.ar", 0); ("Ca", 0);
   ("Cl", 12); ("F", 12); ("H", 0); ("I", 12); ("K", 0); ("Li", 0); ("N.1", 4); ("N.2", 4);
   ("N.3", 4); ("N.4", 0); ("N.am", 0); ("N.ar", 4); ("N.pl3", 0); ("Na", 0); ("O.2", 8);
   ("O.3", 8); ("P.3", 0); ("S.2", 8); ("S.3", 8); ("S.o", 4); ("S.o2", 0); ("Si", 0);
   ("O.co2", 9)]%Z.

(* POLY_TERMS in 1/100: ((base, adjustment), c1, c2, c3); the 0th-order term is
   written `base + adjustment` in the source and is computed that way *)
Definition POLY : list (string * (Z * Z * Z * Z * Z)) :=
  [("H", (717, 0, 624, -56, 1285));
   ("C.3", (798, 0, 918, 188, 1904));
   ("C.CAT", (798, 0, 918, 188, 1904));
   ("C.2", (879, 50, 932, 151, 1962));
   ("C.AR", (798, 55, 918, 188, 1904));
   ("C.1", (1039, 0, 945, 73, 2057));
   ("N.3", (1154, 600, 1028, 136, 2800));
   ("N.4", (1154, 600, 1028, 136, 2800));
   ("N.AR", (1287, -129, 1115, 85, 2487));
   ("N.2", (1287, 0, 1115, 85, 2487));
   ("N.PL3", (1287, 50, 1115, 85, 2487));
   ("N.AM", (1287, 350, 1115, 85, 2487));
   ("N.1", (1568, 0, 1170, -27, 2711));
   ("O.OH", (1418, 80, 1292, 139, 2849));
   ("O.3", (1418, -310, 1292, 139, 2849));
   ("O.2", (1418, 0, 1292, 139, 2849));
   ("O.CO2", (1525, 0, 1379, 47, 3133));
   ("F", (1236, 0, 1385, 231, 3082));
   ("CL", (938, 100, 969, 135, 2204));
   ("BR", (1008, 80, 847, 116, 1971));
   ("I", (990, 100, 796, 96, 1882));
   ("S.3", (1013, 50, 913, 138, 2065));
   ("S.2", (1013, 50, 913, 138, 2065));
   ("S.O2", (1013, 50, 913, 138, 2065));
   ("P.3", (1013, 50, 913, 138, 2065))]%Z.

(* the Sybyl types for which every lookup of assign_parameters succeeds *)
Definition SUPPORTED : list string :=
  ["Br"; "C.1"; "C.2"; "C.3"; "C.ar"; "Cl"; "F"; "H"; "I"; "N.1"; "N.2"; "N.3"; "N.4";
   "N.am"; "N.ar"; "N.pl3"; "O.2"; "O.3"; "O.co2"; "P.3"; "S.2"; "S.3"; "S.o2"].

(* ---- electronegativity with the code's tables --------------------------- *)

Section Chi.
  Context {A : Type} (ops : Arith A).
  Local Notation add := (a_add ops).
  Local Notation mul := (a_mul ops).
  Local Notation dec := (a_dec ops).

  Definition leb (x y : A) : bool := negb (a_ltb ops y x).

  (* math.isclose(a, b) (rel_tol = 1e-09, abs_tol = 0.0), as in CPython *)
  Definition isclose (a b : A) : bool :=
    if a_eqb ops a b then true
    else
      let diff := a_abs ops (a_sub ops b a) in
      let rel := dec 1%Z 1000000000%positive in
      leb diff (a_abs ops (mul rel b)) || leb diff (a_abs ops (mul rel a)).

  Definition max_charge : A := dec 11%Z 10%positive.          (* MAX_CHARGE = 1.1 *)
  Definition h_electroneg : A := dec 2002%Z 100%positive.     (* DEFAULT_H_ELECTRONEG *)
  Definition damping : A := dec 778%Z 1000%positive.          (* DAMPING_FACTOR *)
  Definition scaling : A := dec 156%Z 100%positive.           (* SCALING_FACTOR *)
  Definition num_cycles : nat := 6.                           (* NUM_CYCLES *)

  Definition hundredths (z : Z) : A := dec z 100%positive.

  (* assign_terms: key = type.upper(), "O.3" replaced by "O.OH"; None = KeyError *)
  Definition terms_key (t : string) : string :=
    let u := upper t in if u =? "O.3" then "O.OH" else u.
  Definition row_terms (row : Z * Z * Z * Z * Z) : A * A * A * A :=
    let '(b, adj, c1, c2, c3) := row in
    let p0 := if (adj =? 0)%Z then hundredths b else add (hundredths b) (hundredths adj) in
    (p0, hundredths c1, hundredths c2, hundredths c3).
  Definition poly_terms (t : string) : option (A * A * A * A) :=
    option_map row_terms (lookup (terms_key t) POLY).

  (* peoe.electronegativity(charge, poly_terms, atom_type), 4-term branch *)
  Definition electroneg (t : string) (p : A * A * A * A) (charge : A) : A :=
    let '(p0, p1, p2, p3) := p in
    let charge :=
      if a_ltb ops max_charge (a_abs ops charge) then
        (if a_ltb ops charge (a_zero ops) then mul (a_ofZ ops (-1)%Z) max_charge else max_charge)
      else charge in
    if (t =? "H") && isclose charge (a_one ops) then h_electroneg
    else add (add (add p0 (mul p1 charge)) (mul (mul p2 charge) charge))
             (mul (mul (mul p3 charge) charge) charge).

  (* chi for an atom type whose terms exist (checked before the kernel runs) *)
  Definition chi_code (t : string) (charge : A) : A :=
    match poly_terms t with
    | Some p => electroneg t p charge
    | None => a_zero ops
    end.
End Chi.

(* ---- formal charges and radii (mol2.py) --------------------------------- *)

Inductive btype := Single | Double | Triple | Aromatic.

(* parse_bonds: the bond type word; None = NotImplementedError / ValueError *)
Definition parse_btype (w : string) : option btype :=
  if w =? "1" then Some Single else if w =? "2" then Some Double
  else if w =? "3" then Some Triple else if w =? "ar" then Some Aromatic else None.

Record mol := mkmol {
  m_types : list string;                 (* normalised atom.type by position *)
  m_bonds : list (nat * nat * btype)     (* BOND lines, 0-based positions, file order *)
}.

Definition m_n (m : mol) : nat := List.length (m_types m).
Definition m_ty (m : mol) (i : nat) : string := nth i (m_types m) "".
Definition m_pairs (m : mol) : list (nat * nat) := map fst (m_bonds m).

(* atom.bonds (a self bond is appended twice) *)
Definition atom_bonds (m : mol) (i : nat) : list (nat * nat * btype) :=
  flat_map (fun b => (if (fst (fst b) =? i)%nat then [b] else []) ++
                     (if (snd (fst b) =? i)%nat then [b] else []))%list (m_bonds m).

Definition bond_order (m : mol) (i : nat) : Z :=
  let bs := atom_bonds m i in
  let order := fold_left (fun o b => match snd b with
                                     | Single => o + 1 | Double => o + 2
                                     | Triple => o + 3 | Aromatic => o end)%Z bs 0%Z in
  let nar := Z.of_nat (List.length (filter (fun b => match snd b with Aromatic => true | _ => false end) bs)) in
  if (0 <? nar)%Z then (order + nar + 1)%Z else order.

(* the phosphate branch of Mol2Atom.formal_charge (doubled): -1 for the first
   bond-order-1 oxygen found walking the bonds of the P atom of this atom's
   first bond, else 0; None = IndexError / ValueError (no P in the first bond) *)
Definition phosphate_rule (m : mol) (i : nat) : option Z :=
  match atom_bonds m i with
  | [] => None
  | b0 :: _ =>
      let a1 := fst (fst b0) in
      let a2 := snd (fst b0) in
      let p := if first_char (m_ty m a1) =? "P" then Some a1
               else if first_char (m_ty m a2) =? "P" then Some a2 else None in
      match p with
      | None => None
      | Some p =>
          let isO1 := fun a => (first_char (m_ty m a) =? "O") && (bond_order m a =? 1)%Z in
          let o_atoms := flat_map (fun b => filter isO1 [fst (fst b); snd (fst b)]) (atom_bonds m p) in
          match o_atoms with
          | [] => None
          | o :: _ => Some (if (o =? i)%nat then (-2)%Z else 0%Z)
          end
      end
  end.

(* Mol2Atom.formal_charge, doubled; None = an exception (KeyError for an
   unknown element/type, ValueError when the phosphate rule finds no P) *)
Definition formal_charge2 (m : mol) (i : nat) : option Z :=
  let t := m_ty m i in
  match lookup (before_dot t) VALENCE, lookup t NONBONDED2 with
  | Some v, Some nb2 =>
      let bo := bond_order m i in
      let fc := (2 * v - nb2 - 2 * bo)%Z in
      if ((t =? "N.pl3") || (t =? "N.am")) && (bo =? 3)%Z && negb (fc =? 0)%Z then Some 0%Z
      else if (t =? "N.ar") && (bo =? 4)%Z && negb (fc =? 0)%Z then Some 0%Z
      else if (t =? "C.ar") && (bo =? 5)%Z && negb (fc =? 0)%Z then Some 0%Z
      else if (t =? "O.co2") && (bo =? 1)%Z && negb (fc =? -1)%Z then Some (-1)%Z
      else if (t =? "C.2") && (bo =? 5)%Z && (fc =? -2)%Z then Some 0%Z
      else if (t =? "N.3") && (bo =? 4)%Z && (fc =? -2)%Z then Some 2%Z
      else if (t =? "O.3") && (bo =? 1)%Z && (fc =? 2)%Z then phosphate_rule m i
      else Some fc
  | _, _ => None
  end.

(* Mol2Atom.assign_radius(RADII["zap9"], RADII["bondi"]) in 1/100 A; None = KeyError *)
Definition radius_of (t : string) : option Z :=
  let e := upper (before_dot t) in
  match lookup t ZAP9 with
  | Some r => Some r
  | None =>
      match lookup e ZAP9 with
      | Some r => Some r
      | None =>
          match lookup t BONDI with
          | Some r => Some r
          | None => lookup e BONDI
          end
      end
  end.

(* Mol2Atom.assign_radius(primary_dict, secondary_dict) for ARBITRARY tables
   (assign_radii / assign_parameters pass the caller's two dictionaries through
   unchanged): primary[type], primary[ELEMENT], secondary[type],
   secondary[ELEMENT]; None = KeyError.  [radius_of] is the instance with the
   default arguments (RADII["zap9"], RADII["bondi"]). *)
Definition radius_from (p s : list (string * Z)) (t : string) : option Z :=
  let e := upper (before_dot t) in
  match lookup t p with
  | Some r => Some r
  | None =>
      match lookup e p with
      | Some r => Some r
      | None =>
          match lookup t s with
          | Some r => Some r
          | None => lookup e s
          end
      end
  end.

Fixpoint all_some {V : Type} (l : list (option V)) : option (list V) :=
  match l with
  | [] => Some []
  | None :: _ => None
  | Some v :: r => match all_some r with Some r' => Some (v :: r') | None => None end
  end.

Section Assign.
  Context {A : Type} (ops : Arith A).

  Definition half (z : Z) : A := a_dec ops z 2%positive.

  Definition mol_ok (m : mol) : bool := bonds_ok (m_n m) (m_pairs m).

  Definition formal_charges2 (m : mol) : option (list Z) :=
    all_some (map (formal_charge2 m) (seq 0 (m_n m))).

  (* peoe.equilibrate(atoms, damp, scale, num_cycles) on formal charges fc2/2 *)
  Definition equilibrate_code (m : mol) (fc2 : list Z) (damp scale : A) (ncyc : nat) : list A :=
    equilibrate ops (chi_code ops) (m_n m) (m_ty m) (m_pairs m)
                (fun i => half (nth i fc2 0%Z)) damp scale ncyc.

  (* Mol2Molecule.assign_parameters(): (radius in 1/100, charge) per atom;
     None = an exception was raised (order of the stages as in the code) *)
  Definition assign_parameters_n (m : mol) (ncyc : nat) : option (list (Z * A)) :=
    if negb (mol_ok m) then None else
    match all_some (map radius_of (m_types m)) with
    | None => None
    | Some radii =>
        match formal_charges2 m with
        | None => None
        | Some fc2 =>
            if negb (forallb (fun t => match lookup (terms_key t) POLY with Some _ => true | None => false end)
                             (m_types m)) then None
            else Some (combine radii (equilibrate_code m fc2 (damping ops) (scaling ops) ncyc))
        end
    end.

  Definition assign_parameters (m : mol) : option (list (Z * A)) :=
    assign_parameters_n m num_cycles.
End Assign.

(* ---- instances ---------------------------------------------------------- *)

Definition QA : Arith Q := {|
  a_zero := 0%Q; a_one := 1%Q;
  a_add := fun x y => Qred (x + y);
  a_sub := fun x y => Qred (x - y);
  a_mul := fun x y => Qred (x * y);
  a_div := fun x y => Qred (x / y);
  a_abs := Qabs;
  a_ltb := fun x y => negb (Qle_bool y x);
  a_eqb := Qeq_bool;
  a_ofZ := inject_Z;
  a_dec := fun z d => Qred (z # d)
|}.

Definition f_ofZ (z : Z) : PrimFloat.float :=
  if (z <? 0)%Z then PrimFloat.opp (PrimFloat.of_uint63 (Uint63.of_Z (- z)))
  else PrimFloat.of_uint63 (Uint63.of_Z z).

Definition FA : Arith PrimFloat.float := {|
  a_zero := f_ofZ 0; a_one := f_ofZ 1;
  a_add := PrimFloat.add; a_sub := PrimFloat.sub; a_mul := PrimFloat.mul; a_div := PrimFloat.div;
  a_abs := PrimFloat.abs;
  a_ltb := PrimFloat.ltb;
  a_eqb := PrimFloat.eqb;
  a_ofZ := f_ofZ;
  a_dec := fun z d => PrimFloat.div (f_ofZ z) (f_ofZ (Zpos d))
|}.

(* ---- the ligand transfer loop of main.non_trivial ----------------------- *)

(* One atom object of the biomolecule at the time the loop runs:
   unique id, record type, name, and what apply_force_field found for it. *)
Section Transfer.
  Context {P : Type}.                     (* (charge, radius) *)

  Record patom := mkpatom {
    pa_id : nat;
    pa_het : bool;                        (* atom.type == "HETATM" *)
    pa_name : string;
    pa_ff : option P                      (* force-field parameters, None = missed *)
  }.

  Record presidue := mkpres {
    pr_name : string;                     (* residue.name *)
    pr_atoms : list patom
  }.

  Record tstate := mkts {
    ts_param : nat -> option P;           (* (ffcharge, radius) by atom id *)
    ts_lig : list nat;                    (* lig_atoms *)
    ts_missing : list nat                 (* missing_atoms *)
  }.

  (* biomolecule.apply_force_field: hitlist, misslist, parameters set on hits *)
  Definition ff_hits (rs : list presidue) : list nat :=
    map pa_id (filter (fun a => match pa_ff a with Some _ => true | None => false end)
                      (flat_map pr_atoms rs)).
  Definition ff_misses (rs : list presidue) : list nat :=
    map pa_id (filter (fun a => match pa_ff a with Some _ => false | None => true end)
                      (flat_map pr_atoms rs)).
  Definition ff_param (rs : list presidue) (i : nat) : option P :=
    match find (fun a => (pa_id a =? i)%nat) (flat_map pr_atoms rs) with
    | Some a => pa_ff a
    | None => None
    end.

  (* `x in {set of names}` and `a <= b` on sets of names *)
  Definition smem (s : string) (l : list string) : bool := existsb (String.eqb s) l.
  Definition ssubset (a b : list string) : bool := forallb (fun x => smem x b) a.
  Definition nmem (i : nat) (l : list nat) : bool := existsb (Nat.eqb i) l.

  (* `heavy <= {a.name for a in res.atoms} <= ligand.atoms.keys()`: the residue
     consists of exactly the heavy atoms the MOL2 file lists, plus any of its
     hydrogens *)
  Definition describes (heavy : list string) (lig : list (string * P)) (r : presidue) : bool :=
    ssubset heavy (map pa_name (pr_atoms r)) && ssubset (map pa_name (pr_atoms r)) (map fst lig).

  (* `lig_names` as computed before the loop.  [lnames] = residue names of the
     MOL2 atoms, [heavy] = names of the MOL2 atoms whose type is not "H".
     If some residue of the structure carries a MOL2 residue name the names
     decide; otherwise (placeholder name in the MOL2 file) the residues that
     the file describes atom by atom. *)
  Definition lig_names (lnames heavy : list string) (lig : list (string * P))
             (rs : list presidue) : list string :=
    if existsb (fun r => smem (pr_name r) lnames) rs then lnames
    else map pr_name (filter (describes heavy lig) rs).

  (* `if residue.name not in lig_names: continue` *)
  Definition selected (names : list string) (r : presidue) : bool := smem (pr_name r) names.

  (* `for pdb_atom in residue.atoms: if pdb_atom.type == "ATOM": break ...` *)
  Fixpoint visit_atoms (lig : list (string * P)) (st : tstate) (l : list patom) : tstate :=
    match l with
    | [] => st
    | a :: r =>
        if negb (pa_het a) then st                                  (* break *)
        else
          match lookup (pa_name a) lig with                         (* ligand.atoms[pdb_atom.name] *)
          | Some p =>
              visit_atoms lig
                (mkts (fun i => if (i =? pa_id a)%nat then Some p else ts_param st i)
                      (ts_lig st ++ [pa_id a]) (ts_missing st)) r
          | None =>                                                 (* KeyError *)
              visit_atoms lig
                (mkts (ts_param st) (ts_lig st) (ts_missing st ++ [pa_id a])) r
          end
    end.

  (* the loop over the residues, for a given set of selected residue names *)
  Definition transfer_loop_on (names : list string) (lig : list (string * P))
             (rs : list presidue) : tstate :=
    fold_left (fun st r => if selected names r then visit_atoms lig st (pr_atoms r) else st) rs
              (mkts (ff_param rs) [] (ff_misses rs)).

  (* the atom lines of the PQR:
     `matched_atoms += [a for a in lig_atoms if a not in matched_atoms]`,
     each printed with the parameters its object carries at the end *)
  Definition written_on (names : list string) (lig : list (string * P))
             (rs : list presidue) : list (nat * option P) :=
    let st := transfer_loop_on names lig rs in
    map (fun i => (i, ts_param st i))
        (ff_hits rs ++ filter (fun i => negb (nmem i (ff_hits rs))) (ts_lig st))%list.

  (* main.non_trivial as coded now *)
  Definition transfer_loop (lnames heavy : list string) (lig : list (string * P))
             (rs : list presidue) : tstate :=
    transfer_loop_on (lig_names lnames heavy lig rs) lig rs.
  Definition written (lnames heavy : list string) (lig : list (string * P))
             (rs : list presidue) : list (nat * option P) :=
    written_on (lig_names lnames heavy lig rs) lig rs.

  (* THE LOOP BEFORE THE REPAIR of finding C16-F4 (kept for the labelled
     refutation only): every residue is visited, every matched atom is appended *)
  Definition transfer_loop_old (lig : list (string * P)) (rs : list presidue) : tstate :=
    fold_left (fun st r => visit_atoms lig st (pr_atoms r)) rs
              (mkts (ff_param rs) [] (ff_misses rs)).
  Definition written_old (lig : list (string * P)) (rs : list presidue) : list (nat * option P) :=
    let st := transfer_loop_old lig rs in
    map (fun i => (i, ts_param st i)) (ff_hits rs ++ ts_lig st)%list.
End Transfer.
Arguments patom : clear implicits.
Arguments presidue : clear implicits.
Arguments tstate : clear implicits.

(* ---- rendering for the correspondence harness --------------------------- *)

Definition show_Q (q : Q) : string :=
  Z_to_string (Qnum q) ++ "/" ++ Z_to_string (Zpos (Qden q)).

(* sign mantissa exponent (value = +-m * 2^e), or a word *)
Definition show_F (f : PrimFloat.float) : string :=
  match FloatOps.Prim2SF f with
  | SpecFloat.S754_zero _ => "0 0 0"
  | SpecFloat.S754_infinity s => if s then "-inf" else "inf"
  | SpecFloat.S754_nan => "nan"
  | SpecFloat.S754_finite s mnt e =>
      (if s then "-" else "") ++ Z_to_string (Zpos mnt) ++ " " ++ Z_to_string e
  end.

Definition show_list {X : Type} (f : X -> string) (l : list X) : string := join ";" (map f l).

Definition show_opt {X : Type} (f : X -> string) (o : option X) : string :=
  match o with Some x => f x | None => "EXC" end.

Definition show_params {A : Type} (f : A -> string) (o : option (list (Z * A))) : string :=
  show_opt (show_list (fun p => Z_to_string (fst p) ++ ":" ++ f (snd p))) o.

(* the harness entry points: types are given raw (as in the file) *)
Definition mk_mol (raw_types : list string) (bonds : list (nat * nat * string)) : option mol :=
  match all_some (map norm_type raw_types),
        all_some (map (fun b => match parse_btype (snd b) with
                                | Some t => Some (fst b, t) | None => None end) bonds) with
  | Some ts, Some bs => Some (mkmol ts bs)
  | _, _ => None
  end.

Definition run_Q (raw_types : list string) (bonds : list (nat * nat * string)) (ncyc : nat) : string :=
  match mk_mol raw_types bonds with
  | Some m => show_params show_Q (assign_parameters_n QA m ncyc)
  | None => "EXC"
  end.

Definition run_F (raw_types : list string) (bonds : list (nat * nat * string)) (ncyc : nat) : string :=
  match mk_mol raw_types bonds with
  | Some m => show_params show_F (assign_parameters_n FA m ncyc)
  | None => "EXC"
  end.

Definition run_formal (raw_types : list string) (bonds : list (nat * nat * string)) : string :=
  match mk_mol raw_types bonds with
  | Some m => show_list (fun i => show_opt Z_to_string (formal_charge2 m i)) (seq 0 (m_n m))
              ++ "|" ++ show_list (fun t => show_opt Z_to_string (radius_of t)) (m_types m)
              ++ "|" ++ show_list (fun i => Z_to_string (bond_order m i)) (seq 0 (m_n m))
  | None => "EXC"
  end.

(* assign_radii(primary, secondary) on a list of (normalised) types *)
Definition run_radii (p s : list (string * Z)) (types : list string) : string :=
  show_list (fun t => show_opt Z_to_string (radius_from p s t)) types.

(* tables, rendered for comparison with the dictionaries of /repo *)
Definition show_tables : string :=
  "ZAP9=" ++ show_list (fun kv => fst kv ++ ":" ++ Z_to_string (snd kv)) ZAP9 ++ "|BONDI=" ++
  show_list (fun kv => fst kv ++ ":" ++ Z_to_string (snd kv)) BONDI ++ "|VALENCE=" ++
  show_list (fun kv => fst kv ++ ":" ++ Z_to_string (snd kv)) VALENCE ++ "|NONBONDED2=" ++
  show_list (fun kv => fst kv ++ ":" ++ Z_to_string (snd kv)) NONBONDED2 ++ "|POLYQ=" ++
  show_list (fun kv => fst kv ++ ":" ++
               let '(a, b, c, d) := row_terms QA (snd kv) in
               show_Q a ++ "," ++ show_Q b ++ "," ++ show_Q c ++ "," ++ show_Q d) POLY ++ "|POLYF=" ++
  show_list (fun kv => fst kv ++ ":" ++
               let '(a, b, c, d) := row_terms FA (snd kv) in
               show_F a ++ "," ++ show_F b ++ "," ++ show_F c ++ "," ++ show_F d) POLY ++ "|CONST=" ++
  show_list show_Q [max_charge QA; h_electroneg QA; damping QA; scaling QA; inject_Z (Z.of_nat num_cycles)].

(* the transfer loop over printable parameters (charge, radius as strings):
   MOL2 residue names, names of the MOL2 non-hydrogen atoms, MOL2 atoms,
   residues as (name, atoms) *)
Definition run_transfer (lnames heavy : list string) (lig : list (string * string))
           (rs : list (string * list (nat * bool * string * option string))) : string :=
  let rs' := map (fun r => mkpres (fst r)
                     (map (fun a => mkpatom (fst (fst (fst a))) (snd (fst (fst a))) (snd (fst a)) (snd a)) (snd r))) rs in
  let st := transfer_loop lnames heavy lig rs' in
  show_list (fun w => Z_to_string (Z.of_nat (fst w)) ++ "=" ++ show_opt (fun s => s) (snd w)) (written lnames heavy lig rs')
  ++ "|" ++ show_list (fun i => Z_to_string (Z.of_nat i)) (ts_missing st).
