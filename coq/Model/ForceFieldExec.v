(* Executable helpers for the C01 correspondence check. *)
From Coq Require Import ZArith List String PArith.
From PV Require Import Lib.Decimal Model.ForceField.
Import ListNotations.
Local Open Scope string_scope.

Definition check_user (rows : list row) (rules : list rule) (dump : list flat) (nres : nat) : string :=
  match build rows rules with
  | None => "keyerror"
  | Some m => if same_map m dump nres then "ok" else "diff"
  end.

Definition show_entry (o : option entry) : string :=
  match o with
  | None => "-"
  | Some e => Z_to_string (e_q e) ++ " " ++ Z_to_string (e_r e) ++ " "
              ++ Z_to_string (Zpos (e_nres e)) ++ " " ++ Z_to_string (Zpos (e_natom e))
  end.

Definition show_lookups (m : ffmap) (pairs : list (id * id)) : string :=
  String.concat ";" (map (fun p => show_entry (lookup m (fst p) (snd p))) pairs).

(* flat list of the model-built user map, for diagnosis *)
Definition show_user_map (rows : list row) (rules : list rule) : string :=
  match build rows rules with
  | None => "keyerror"
  | Some m => String.concat ";" (map (fun f => let '(r, a, e) := f in
                Z_to_string (Zpos r) ++ "." ++ Z_to_string (Zpos a) ++ "=" ++ show_entry (Some e)) (flatten m))
  end.
