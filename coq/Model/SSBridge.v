(* Model of disulfide detection (C13):
     pdb2pqr.biomolecule.Biomolecule.update_ss_bridges   (double loop, flagging, CYX patch)
     pdb2pqr.biomolecule.Biomolecule.add_hydrogens       (HG only)
     pdb2pqr.aa.CYS.set_state                            (without the N/C terminus prefix)

   Atoms are identified by a `nat` id (python: object identity of the SG atom;
   `Atom` defines neither __eq__ nor __hash__).  `sg_partners` is a dict from
   SG atom to a list; it is modelled as the ordered key list (insertion order =
   order of Biomolecule.residues restricted to CYS residues that have an SG)
   plus a total function id -> list id.  The distance test
   `util.distance(atom.coords, partner.coords) < BONDED_SS_LIMIT` is the
   abstract boolean relation `close`; two executable instances are given at the
   end of the file.  No proofs here. *)
From Coq Require Import List Arith ZArith Bool String PrimFloat.
From PV Require Import Lib.Strings Lib.Decimal.
Import ListNotations.

(* residue name as read from the input file; all three are class aa.CYS *)
Inductive cname := CYS | CYX | CYM.

Definition cname_eqb (a b : cname) : bool :=
  match a, b with CYS, CYS | CYX, CYX | CYM, CYM => true | _, _ => false end.

(* one residue of class aa.CYS as update_ss_bridges sees it *)
Record cres := mkres {
  c_id : nat;        (* identity of the residue / of its SG atom *)
  c_name : cname;    (* residue.name *)
  c_sg : bool;       (* residue.get_atom("SG") is not None *)
  c_hg : bool;       (* an HG atom is present on entry *)
  c_build : bool;    (* add_hydrogens can place HG: three of SG CB CA HB2 HB3 exist *)
  c_chain : nat;     (* chain label - never read by the model *)
  c_seq : Z          (* residue number - never read by the model *)
}.

(* what the rest of the pipeline observes for that residue *)
Record cout := mkout {
  o_partners : list nat;     (* sg_partners[SG] after the double loop ([] if no SG) *)
  o_bonded : bool;           (* residue.ss_bonded *)
  o_partner : option nat;    (* residue.ss_bonded_partner (None = python None) *)
  o_patched : bool;          (* "CYX" in residue.patches *)
  o_hg : bool;               (* residue.has_atom("HG") after add_hydrogens *)
  o_ff : cname               (* residue.ffname after CYS.set_state, terminus prefix dropped *)
}.

Section SSBridge.
  Variable close : nat -> nat -> bool.

  Definition pmap := nat -> list nat.
  Definition pm0 : pmap := fun _ => [].
  Definition upd (m : pmap) (k : nat) (v : list nat) : pmap :=
    fun x => if Nat.eqb x k then v else m x.
  Definition nonempty (l : list nat) : bool :=
    match l with [] => false | _ :: _ => true end.

  (* for partner, value in sg_partners.items():
         if atom == partner or sg_partners[atom] != []: continue
         if dist < BONDED_SS_LIMIT:
             sg_partners[atom].append(partner); value.append(atom)        *)
  Fixpoint inner (a : nat) (ps : list nat) (m : pmap) : pmap :=
    match ps with
    | [] => m
    | p :: r =>
        if Nat.eqb a p || nonempty (m a) then inner a r m
        else if close a p
             then inner a r (upd (upd m a (m a ++ [p])) p (m p ++ [a]))
             else inner a r m
    end.

  (* for atom in sg_partners: <inner loop over all keys> *)
  Definition scan (keys : list nat) : pmap :=
    fold_left (fun m a => inner a keys m) keys pm0.

  (* first loop: keys in residue order, only residues that have an SG *)
  Definition sg_keys (rs : list cres) : list nat := map c_id (filter c_sg rs).

  Definition partners_of (rs : list cres) (r : cres) : list nat :=
    if c_sg r then scan (sg_keys rs) (c_id r) else [].

  (* third loop + apply_patch("CYX") + add_hydrogens (HG) + CYS.set_state *)
  Definition ss_result (rs : list cres) (r : cres) : cout :=
    let ps := partners_of rs r in
    let bonded := Nat.eqb (List.length ps) 1 in            (* numpartners == 1 *)
    let partner := if bonded then hd_error ps else None in
    let patched := bonded in                                (* apply_patch("CYX", res1) *)
    let hg1 := c_hg r && negb patched in                    (* patch.remove = [HG] *)
    let ref_hg :=                                           (* "HG" in residue.reference.map *)
      match c_name r with CYS => negb patched | _ => false end in
    let hg2 :=                                              (* add_hydrogens *)
      hg1 || (ref_hg && negb bonded && c_build r) in
    let ff :=                                               (* CYS.set_state *)
      if patched || cname_eqb (c_name r) CYX || bonded then CYX
      else if cname_eqb (c_name r) CYM then CYM
      else if negb hg2 then CYX
      else c_name r in
    mkout ps bonded partner patched hg2 ff.

  Definition ss_results (rs : list cres) : list (nat * cout) :=
    map (fun r => (c_id r, ss_result rs r)) rs.
End SSBridge.

(* ---- executable instance 1: exact integer coordinates ------------------
   Coordinates in units of 0.001 A (what a PDB file can carry: %8.3f).  The
   comparison dist < 2.5 is the exact comparison d^2 < 2500^2 in these units.
   This coincides with the binary64 computation of the code whenever
   d^2 <> 6250000 (the rounding error of sqrt(sum of squares) is ~1e-16
   relative, the nearest other integer is 1.6e-7 away) and whenever all
   coordinates are multiples of 0.125 A (then the float computation is exact). *)
Definition zsq (z : Z) : Z := (z * z)%Z.

Definition coordZ (tab : list (nat * (Z * Z * Z))) (a : nat) : Z * Z * Z :=
  match find (fun p => Nat.eqb (fst p) a) tab with
  | Some p => snd p
  | None => (0, 0, 0)%Z
  end.

Definition dist2Z (tab : list (nat * (Z * Z * Z))) (a b : nat) : Z :=
  let '(x1, y1, z1) := coordZ tab a in
  let '(x2, y2, z2) := coordZ tab b in
  (zsq (x1 - x2) + zsq (y1 - y2) + zsq (z1 - z2))%Z.

Definition ss_limit_mA : Z := 2500%Z.   (* config.BONDED_SS_LIMIT = 2.5 *)

Definition closeZ (tab : list (nat * (Z * Z * Z))) (a b : nat) : bool :=
  (dist2Z tab a b <? zsq ss_limit_mA)%Z.

(* ---- executable instance 2: binary64 threshold on oracle distances ------
   numpy.linalg.norm is an oracle (its summation uses FMA on this platform, so
   it is not reproducible with PrimFloat add/mul); the harness supplies
   norm(a - b) for every ordered pair and the model does the comparison
   `dist < 2.5` in binary64. Missing table entry = nan = never close; the show
   function reports missing entries explicitly. *)
Definition ss_limit_f : float := 0x1.4p+1%float.

Definition distF (tab : list (nat * nat * float)) (a b : nat) : option float :=
  match find (fun p => Nat.eqb (fst (fst p)) a && Nat.eqb (snd (fst p)) b) tab with
  | Some p => Some (snd p)
  | None => None
  end.

Definition closeF (tab : list (nat * nat * float)) (a b : nat) : bool :=
  match distF tab a b with
  | Some d => PrimFloat.ltb d ss_limit_f
  | None => false
  end.

(* ---- printing ---------------------------------------------------------- *)
Local Open Scope string_scope.

Definition show_nat (n : nat) : string := Z_to_string (Z.of_nat n).
Definition show_bool (b : bool) : string := if b then "1" else "0".
Definition show_cname (c : cname) : string :=
  match c with CYS => "CYS" | CYX => "CYX" | CYM => "CYM" end.
Definition show_opt (o : option nat) : string :=
  match o with Some n => show_nat n | None => "-" end.

(* id:partners:bonded:partner:patched:hg:ff *)
Definition show_out (p : nat * cout) : string :=
  let '(i, o) := p in
  show_nat i ++ ":" ++ join "," (map show_nat (o_partners o)) ++ ":" ++ show_bool (o_bonded o)
  ++ ":" ++ show_opt (o_partner o) ++ ":" ++ show_bool (o_patched o) ++ ":" ++ show_bool (o_hg o)
  ++ ":" ++ show_cname (o_ff o).

Definition cname_of_code (n : nat) : cname :=
  match n with 0 => CYS | 1 => CYX | _ => CYM end.

(* residue tuple from the harness: (id, name code, has SG, has HG, buildable) *)
Definition res_of (t : nat * nat * bool * bool * bool) : cres :=
  let '(i, n, sg, hg, bd) := t in mkres i (cname_of_code n) sg hg bd 0 0%Z.

Definition all_pairs_present (tab : list (nat * nat * float)) (ks : list nat) : bool :=
  forallb (fun a => forallb (fun b => Nat.eqb a b ||
     match distF tab a b with Some _ => true | None => false end) ks) ks.

(* residues are given in processing order (order of Biomolecule.residues) *)
Definition run_ssZ (rs : list (nat * nat * bool * bool * bool))
    (coords : list (nat * (Z * Z * Z))) : string :=
  let rs' := map res_of rs in
  if forallb (fun k => match find (fun p => Nat.eqb (fst p) k) coords with
                       | Some _ => true | None => false end) (sg_keys rs')
  then join ";" (map show_out (ss_results (closeZ coords) rs'))
  else "ERR-coords".

Definition run_ssF (rs : list (nat * nat * bool * bool * bool))
    (dists : list (nat * nat * float)) : string :=
  let rs' := map res_of rs in
  if all_pairs_present dists (sg_keys rs')
  then join ";" (map show_out (ss_results (closeF dists) rs'))
  else "ERR-dists".
