(* Model of pdb2pqr.biomolecule.Biomolecule.__init__ / create_residue, of the
   first-wins atom de-duplication in Residue/Amino/Nucleic/WAT.__init__, of
   main.drop_water, and the independent specification [cols_read] (C07).

   Follows /repo after commit 88a0866 (END flushes only a non-empty pending
   residue; a key change with an empty pending residue does not flush) and after
   the C07-F3/F5/F6 fixes: the second MODEL record always ends the loop; records
   whose identity was already placed in a closed residue are skipped ([g_placed]);
   blank chains are lettered with identifiers the file does not use ([free_ids]).

   The topology definition enters as a table [deftab]: residue name ->
   (class kind, alternative-name map), regenerated from /repo by the harness
   on every run (Definition.map, the aa/na class the name resolves to,
   DefinitionResidue.altnames).  A name missing from the table is parsed by the
   generic residue.Residue class, as in create_residue's KeyError path. *)
From Coq Require Import String Ascii List Arith NArith ZArith Bool.
From PV Require Import Lib.Strings Lib.Decimal Model.PdbRead.
Import ListNotations.
Local Open Scope string_scope.

Inductive kind := KAmino | KNucleic | KWater | KGeneric.

Definition deftab := list (string * (kind * list (string * string))).

Fixpoint lookup {A} (k : string) (l : list (string * A)) : option A :=
  match l with
  | [] => None
  | (k', v) :: r => if k =? k' then Some v else lookup k r
  end.

Definition set_chain (a : atomrec) (c : string) : atomrec :=
  mkA (a_het a) (a_tok0 a) (a_serial a) (a_name a) (a_alt a) (a_resname a) c (a_resseq a)
      (a_icode a) (a_x a) (a_y a) (a_z a) (a_src a).
Definition set_name (a : atomrec) (n : string) : atomrec :=
  mkA (a_het a) (a_tok0 a) (a_serial a) n (a_alt a) (a_resname a) (a_chain a) (a_resseq a)
      (a_icode a) (a_x a) (a_y a) (a_z a) (a_src a).
Definition set_alt (a : atomrec) (n : string) : atomrec :=
  mkA (a_het a) (a_tok0 a) (a_serial a) (a_name a) n (a_resname a) (a_chain a) (a_resseq a)
      (a_icode a) (a_x a) (a_y a) (a_z a) (a_src a).
Definition set_resname (a : atomrec) (n : string) : atomrec :=
  mkA (a_het a) (a_tok0 a) (a_serial a) (a_name a) (a_alt a) n (a_chain a) (a_resseq a)
      (a_icode a) (a_x a) (a_y a) (a_z a) (a_src a).
Definition set_het (a : atomrec) (h : bool) : atomrec :=
  mkA h (a_tok0 a) (a_serial a) (a_name a) (a_alt a) (a_resname a) (a_chain a) (a_resseq a)
      (a_icode a) (a_x a) (a_y a) (a_z a) (a_src a).

(* ---- main.drop_water ------------------------------------------------------ *)

Definition water_names : list string := ["HOH"; "WAT"].

(* record_type() in ["HETATM","ATOM",...] and res_name in WAT.water_residue_names.
   record_type() is the record name of columns 1-6 (C07-F4 fix; it used to be
   the first whitespace token, so "HETATM10000" was not "HETATM"). *)
Definition dropped_by_drop_water (r : rec) : bool :=
  match r with
  | RAtom a => mem_str (a_tok0 a) ["HETATM"; "ATOM"] && mem_str (a_resname a) water_names
  | _ => false
  end.

Definition drop_water (l : list rec) : list rec :=
  filter (fun r => negb (dropped_by_drop_water r)) l.

(* ---- create_residue -------------------------------------------------------- *)

Record resid := mkR {
  r_name : string; r_chain : string; r_resseq : Z; r_icode : string;
  r_atoms : list atomrec
}.

Definition rna_map (n : string) : string :=
  if n =? "A" then "RA" else if n =? "C" then "RC" else if n =? "G" then "RG"
  else if n =? "U" then "RU" else n.

Definition alt_name (alts : list (string * string)) (n : string) : string :=
  match lookup n alts with Some m => m | None => n end.

(* the loop `if name not in self.map: add_atom  else: oldatom.alt_loc = ""`
   ([blank] = the else branch exists): an atom is kept iff no earlier atom of
   the list has its name; a kept atom's alt_loc is blanked iff a later atom
   has its name *)
Fixpoint dedupe (blank : bool) (seen : list string) (l : list atomrec) : list atomrec :=
  match l with
  | [] => []
  | a :: r =>
      if mem_str (a_name a) seen then dedupe blank seen r
      else
        (if blank && existsb (fun b => a_name b =? a_name a) r then set_alt a "" else a)
          :: dedupe blank (a_name a :: seen) r
  end.

Definition last_atom (l : list atomrec) : option atomrec := List.last (map Some l) None.

Definition create_residue (tab : deftab) (atoms : list atomrec) (resname0 : string) : resid :=
  match last_atom atoms with
  | None => mkR "" "" 0 "" []   (* never called with [] after 88a0866 *)
  | Some smp =>
      let resname := match lookup resname0 tab with Some _ => resname0 | None => rna_map resname0 end in
      match lookup resname tab with
      | Some (KGeneric, _) | None =>
          (* residue.Residue: no renaming, Atom.type from the record class,
             HOH -> WAT *)
          let kept := dedupe true [] atoms in
          if a_resname smp =? "HOH" then
            mkR "WAT" (a_chain smp) (a_resseq smp) (a_icode smp)
                (map (fun a => set_resname a "WAT") kept)
          else mkR (a_resname smp) (a_chain smp) (a_resseq smp) (a_icode smp) kept
      | Some (k, alts) =>
          let renamed := map (fun a => set_name a (alt_name alts (a_name a))) atoms in
          let kept := dedupe (match k with KWater => true | _ => false end) [] renamed in
          let het := match k with KWater => true | _ => false end in
          mkR resname (a_chain smp) (a_resseq smp) (a_icode smp)
              (map (fun a => set_het (set_resname a resname) het) kept)
      end
  end.

(* ---- Biomolecule.__init__ -------------------------------------------------- *)

Definition chain_letters : list string :=
  map (fun c => String c EmptyString)
      (list_ascii_of_string "ABCDEFGHIJKLMNOPQRSTUVWXYZabcdefghijklmnopqrstuvwxyz0123456789").

Definition same_key (a b : atomrec) : bool :=
  (a_resseq a =? a_resseq b)%Z && (a_icode a =? a_icode b) && (a_chain a =? a_chain b).

(* (chain_id, res_seq, ins_code, name) equality: membership test of [placed] *)
Definition same_id (a b : atomrec) : bool := same_key a b && (a_name a =? a_name b).

Record gst := mkG {
  g_prev : option atomrec;             (* previous_atom *)
  g_res : list atomrec;                (* residue (pending records) *)
  g_nm : nat;                          (* num_models *)
  g_count : nat;                       (* TER records seen so far *)
  g_chains : list (string * list resid); (* chain_dict, insertion order *)
  g_placed : list atomrec              (* placed: records of the residues closed so far
                                          (their identities, as read - before renaming) *)
}.

Definition g0 : gst := mkG None [] 0 0 [] [].

Fixpoint has_key {A} (k : string) (l : list (string * A)) : bool :=
  match l with [] => false | (k', _) :: r => (k =? k') || has_key k r end.

Definition ensure_chain (k : string) (l : list (string * list resid)) :=
  if has_key k l then l else (l ++ [(k, [])])%list.

(* chain_dict[k].add_residue(r); the key is always present when this runs
   (the chain of previous_atom was registered when that atom was read); the
   absent case is totalised by registering the chain *)
Fixpoint add_res (k : string) (r : resid) (l : list (string * list resid)) :=
  match l with
  | [] => [(k, [r])]
  | (k', rs) :: t => if k =? k' then (k', (rs ++ [r])%list) :: t else (k', rs) :: add_res k r t
  end.

Section Group.
  Variable tab : deftab.

  (* create_residue(residue, previous_atom.res_name) + add_residue *)
  Definition flush (st : gst) : gst :=
    match g_prev st with
    | None => st
    | Some p =>
        mkG (g_prev st) (g_res st) (g_nm st) (g_count st)
            (add_res (a_chain p) (create_residue tab (g_res st) (a_resname p)) (g_chains st))
            (g_placed st)
    end.

  Definition clear_res (st : gst) : gst :=
    mkG (g_prev st) [] (g_nm st) (g_count st) (g_chains st) (g_placed st).

  (* placed.update(identities of residue) *)
  Definition place (st : gst) : gst :=
    mkG (g_prev st) (g_res st) (g_nm st) (g_count st) (g_chains st) (g_placed st ++ g_res st)%list.

  Inductive gres := GCont (st : gst) | GBreak (st : gst) | GExc.

  Definition is_nil {A} (l : list A) : bool := match l with [] => true | _ => false end.

  (* [free] = the chain letters no ATOM/HETATM record of the file uses *)
  Definition gstep (nchains : nat) (free : list string) (st : gst) (r : rec) : gres :=
    match r with
    | RAtom a0 =>
        let lettered :=
          if (a_chain a0 =? "") && (1 <? nchains)%nat && negb (mem_str (a_resname a0) ["WAT"; "HOH"])
          then option_map (set_chain a0) (nth_error free (g_count st))
          else Some a0 in
        match lettered with
        | None => GExc       (* "Too many chains exist in biomolecule" *)
        | Some a =>
            if existsb (same_id a) (g_placed st) then GCont st   (* listed again: skipped *)
            else
            let st1 := mkG (g_prev st) (g_res st) (g_nm st) (g_count st)
                           (ensure_chain (a_chain a) (g_chains st)) (g_placed st) in
            let st2 :=
              match g_prev st1 with
              | Some p =>
                  if negb (is_nil (g_res st1)) && negb (same_key a p)
                  then clear_res (flush (place st1)) else st1
              | None => st1
              end in
            GCont (mkG (Some a) (g_res st2 ++ [a])%list (g_nm st2) (g_count st2) (g_chains st2)
                       (g_placed st2))
        end
    | REnd =>
        GCont (clear_res (if is_nil (g_res st) then st else flush (place st)))
    | RModel =>
        let st1 := mkG (g_prev st) (g_res st) (S (g_nm st)) (g_count st) (g_chains st) (g_placed st) in
        if (1 <? g_nm st1)%nat then GBreak (if is_nil (g_res st1) then st1 else flush st1)
        else GCont st1
    | RTer => GCont (mkG (g_prev st) (g_res st) (g_nm st) (S (g_count st)) (g_chains st) (g_placed st))
    end.

  (* after the loop ended without break *)
  Definition gfinish (st : gst) : gst :=
    if negb (is_nil (g_res st)) && (g_nm st <=? 1)%nat then flush st else st.

  Fixpoint gloop (nchains : nat) (free : list string) (st : gst) (l : list rec) : option gst :=
    match l with
    | [] => Some (gfinish st)
    | r :: rest =>
        match gstep nchains free st r with
        | GCont st' => gloop nchains free st' rest
        | GBreak st' => Some st'
        | GExc => None
        end
    end.

  Definition count_ter (l : list rec) : nat :=
    List.length (filter (fun r => match r with RTer => true | _ => false end) l).

  (* chain ids of every ATOM/HETATM record of pdblist (all models), as read *)
  Definition used_chains (l : list rec) : list string :=
    flat_map (fun r => match r with RAtom a => [a_chain a] | _ => [] end) l.

  Definition free_ids (l : list rec) : list string :=
    filter (fun c => negb (mem_str c (used_chains l))) chain_letters.

  (* keys sorted as python sorts str (code points), with "" renamed to "ZZ" *)
  Definition sort_key (k : string) : string := if is_empty k then "ZZ" else k.

  Fixpoint insert_chain (c : string * list resid) (l : list (string * list resid)) :=
    match l with
    | [] => [c]
    | d :: t =>
        if String.ltb (sort_key (fst c)) (sort_key (fst d)) then c :: d :: t
        else d :: insert_chain c t
    end.

  Definition sort_chains (l : list (string * list resid)) := fold_right insert_chain [] l.

  (* Biomolecule(pdblist, definition).residues ; None = Exception raised *)
  Definition group (l : list rec) : option (list resid) :=
    match gloop (1 + count_ter l) (free_ids l) g0 l with
    | None => None
    | Some st => Some (concat (map snd (sort_chains (g_chains st))))
    end.

  Definition all_atoms (rs : list resid) : list atomrec := concat (map r_atoms rs).

End Group.

(* ---- the whole ingest: read_pdb ; [drop_water] ; Biomolecule ------------- *)

Inductive result := Done (rs : list resid) | Raised (exc : string).

Definition ingest (fok : string -> bool) (tab : deftab) (dropw : bool) (lines : list string) : result :=
  match read_pdb fok lines with
  | None => Raised "ValueError"
  | Some (recs, _) =>
      match group tab (if dropw then drop_water recs else recs) with
      | None => Raised "Exception"
      | Some rs => Done rs
      end
  end.

(* the same with the other record classes' behaviour explicit (oracle [oerr]) *)
Definition ingestG (fok oerr : string -> bool) (tab : deftab) (dropw : bool) (lines : list string)
  : result :=
  match read_pdbG fok oerr lines with
  | None => Raised "ValueError"
  | Some (recs, _) =>
      match group tab (if dropw then drop_water recs else recs) with
      | None => Raised "Exception"
      | Some rs => Done rs
      end
  end.

Definition readlines (text : string) : list string := let (h, t) := rl text in cons_ne h t.

(* ---- the file layer: open(path, encoding="utf-8") in universal-newline mode --------
   Python's text mode translates "\r\n" and a lone "\r" to "\n" before readline()
   splits after every "\n". *)
Definition cr : ascii := ascii_of_N 13.
Definition lf : ascii := ascii_of_N 10.

Fixpoint univ (s : string) : string :=
  match s with
  | EmptyString => EmptyString
  | String c r =>
      if Ascii.eqb c cr then
        match r with
        | String d r' => if Ascii.eqb d lf then String lf (univ r') else String lf (univ r)
        | EmptyString => String lf EmptyString
        end
      else String c (univ r)
  end.

(* encoding="utf-8-sig" (d3864ae): one leading UTF-8 byte order mark is not text *)
Definition bom_bytes : string :=
  String (ascii_of_N 239) (String (ascii_of_N 187) (String (ascii_of_N 191) EmptyString)).

Definition strip_bom (s : string) : string :=
  if prefix_of bom_bytes s then drop 3 s else s.

(* the readline() chunks of a decoded text / of a file with these bytes *)
Definition chunks_of_text (text : string) : list string := readlines (univ text).
Definition chunks_of_bytes (bytes : string) : list string := chunks_of_text (strip_bom bytes).

(* ---- printing for the correspondence harness ------------------------------ *)

Definition show_bool (b : bool) : string := if b then "HETATM" else "ATOM".

Definition show_atom (a : atomrec) : string :=
  join "," [show_bool (a_het a); Z_to_string (a_serial a); a_name a; a_alt a; a_resname a;
            a_chain a; Z_to_string (a_resseq a); a_icode a; a_x a; a_y a; a_z a].

Definition show_resid (r : resid) : string :=
  join "," [r_name r; r_chain r; Z_to_string (r_resseq r); r_icode r] ++ ":" ++
  join "/" (map show_atom (r_atoms r)).

Definition show_result (r : result) : string :=
  match r with
  | Raised e => "EXC:" ++ e
  | Done rs => "OK:" ++ join ";" (map show_resid rs)
  end.

Definition show_rec (r : rec) : string :=
  match r with
  | RAtom a => show_atom a
  | RTer => "TER"
  | REnd => "END"
  | RModel => "MODEL"
  end.

(* read_pdb alone: the relevant records and errlist *)
Definition show_read (fok : string -> bool) (lines : list string) : string :=
  match read_pdb fok lines with
  | None => "EXC:ValueError"
  | Some (recs, errl) => "OK:" ++ join ";" (map show_rec recs) ++ "|" ++ join "," errl
  end.

Definition run_ingest (tab : deftab) (dropw : bool) (text : string) : string :=
  show_result (ingest py_float_ok tab dropw (readlines text)).

Definition run_ingest_file (tab : deftab) (dropw : bool) (bytes : string) : string :=
  show_result (ingest py_float_ok tab dropw (chunks_of_bytes bytes)).

Definition run_read (text : string) : string := show_read py_float_ok (readlines text).

Definition show_float_ok (l : list string) : string :=
  string_of_list_ascii (map (fun s => if py_float_ok s then "1"%char else "0"%char) l).

Definition show_int (l : list string) : string :=
  join "," (map (fun s => match py_int s with Some z => Z_to_string z | None => "E" end) l).
