(* Model/Pipeline.v - generic model of the pdb2pqr driver (main.main_driver with
   non_trivial inlined) used by C09 and C12.  Definitions only (no proofs).

   The concrete stage list lives in Generated/Stages.v (a list of [sdesc],
   regenerated from pdb2pqr/main.py by /verif/gen/stages.py on every check run).
   Everything here is generic in that list.

   Contents
     1. stage descriptors (what the translator emits)
     2. boolean proof obligations on descriptor lists (C09 and C12)
     3. semantics for C09: options as a store, stages as partial state
        transformers, the pipeline as a fold with exception short-circuit, and
        the trusted meaning of a descriptor ([stage_ok])
     4. the output-file state machine for C12 ([frun])
     5. small models of main.drop_water and Biomolecule.apply_name_scheme *)
From Coq Require Import String List Bool Arith.
Import ListNotations.
Local Open Scope string_scope.

(* ------------------------------------------------------------------ *)
(* 1. descriptors                                                      *)

(* Compute : may change coordinates / charges / radii / atom order
   Rename  : changes atom and residue names only (--ffout)
   Render  : builds strings (atom lines, header) from the model
   Output  : writes files (print_pqr, print_pdb, dump_apbs)
   Log     : logging only
   Ctl     : return statements *)
Inductive kind := Compute | Rename | Render | Output | Log | Ctl.

Definition kind_eqb (a b : kind) : bool :=
  match a, b with
  | Compute, Compute | Rename, Rename | Render, Render
  | Output, Output | Log, Log | Ctl, Ctl => true
  | _, _ => false
  end.

Definition opt := string.

Record sdesc := mk_sdesc {
  sd_name : string;                          (* principal callee *)
  sd_func : string;                          (* enclosing driver function *)
  sd_kind : kind;
  sd_reads : list opt;                       (* options the effect on the state / the failure may depend on *)
  sd_writes : list (opt * list opt);         (* option updates: (written option, options the new value depends on) *)
  sd_file_writes : list (string * list opt); (* reachable file-writing sites: (site, options the path derives from) *)
  sd_writes_output : bool;                   (* some site's path derives from args.output_pqr *)
  sd_swallow : bool                          (* an enclosing handler can finish without re-raising *)
}.

Definition mem (x : string) (l : list string) : bool := existsb (String.eqb x) l.
Definition disjoint (a b : list string) : bool := forallb (fun x => negb (mem x b)) a.

(* the output-affecting options of property C09 (argparse dest names) *)
Definition format_opts : list opt :=
  ["whitespace"; "keep_chain"; "include_header"; "pdb_output"; "apbs_input"; "ffout"].

(* ------------------------------------------------------------------ *)
(* 2. obligations                                                      *)

(* C09: a Compute stage reads no option of F, and no option outside F is ever
   overwritten with a value that depends on an option of F *)
Definition c09_stage_ok (F : list opt) (d : sdesc) : bool :=
  (match sd_kind d with Compute => disjoint (sd_reads d) F | _ => true end)
  && forallb (fun w => mem (fst w) F || disjoint (snd w) F) (sd_writes d).

(* once names have been rewritten no Compute stage runs any more *)
Fixpoint no_compute_after_rename (ds : list sdesc) : bool :=
  match ds with
  | [] => true
  | d :: r =>
    match sd_kind d with
    | Rename => forallb (fun e => negb (kind_eqb (sd_kind e) Compute)) r
    | _ => no_compute_after_rename r
    end
  end.

Definition c09_obligation (F : list opt) (ds : list sdesc) : bool :=
  forallb (c09_stage_ok F) ds && no_compute_after_rename ds.

(* positions of stages by name (for order facts) *)
Fixpoint positions_from (n : string) (ds : list sdesc) (i : nat) : list nat :=
  match ds with
  | [] => []
  | d :: r => if String.eqb (sd_name d) n then i :: positions_from n r (S i) else positions_from n r (S i)
  end.
Definition positions (n : string) (ds : list sdesc) : list nat := positions_from n ds 0.

(* every stage called [a] comes before every stage called [b]; both occur *)
Definition all_before (a b : string) (ds : list sdesc) : bool :=
  negb (match positions a ds with [] => true | _ => false end)
  && negb (match positions b ds with [] => true | _ => false end)
  && forallb (fun i => forallb (fun j => Nat.ltb i j) (positions b ds)) (positions a ds).

(* C12: split at the first stage that may write the output path *)
Fixpoint split_writer (ds : list sdesc) : option (list sdesc * sdesc * list sdesc) :=
  match ds with
  | [] => None
  | d :: r =>
    if sd_writes_output d then Some ([], d, r)
    else match split_writer r with
         | Some (pre, w, post) => Some (d :: pre, w, post)
         | None => None
         end
  end.

Definition is_nil {A} (l : list A) : bool := match l with [] => true | _ => false end.

Definition computing (k : kind) : bool :=
  match k with Compute | Rename | Render => true | _ => false end.

(* only print_pqr writes the output path; nothing at all is written to disk
   before it; every computing stage precedes it; no handler swallows *)
Definition c12_obligation (ds : list sdesc) : bool :=
  match split_writer ds with
  | None => false
  | Some (pre, w, post) =>
    String.eqb (sd_name w) "print_pqr"
    && negb (sd_swallow w)
    && forallb (fun d => negb (sd_swallow d) && is_nil (sd_file_writes d)) pre
    && forallb (fun d => negb (sd_writes_output d) && negb (sd_swallow d)
                         && negb (computing (sd_kind d))) post
  end.

(* ------------------------------------------------------------------ *)
(* 3. semantics for C09                                                *)

Section Semantics.
  Variable value : Type.   (* option values *)
  Variable state : Type.   (* everything the driver holds: biomolecule, record list, rendered lines, files *)
  Variable M : Type.       (* the part Compute stages work on (biomolecule incl. names, definitions, ...) *)
  Variable P : Type.       (* coordinates, charges, radii, atom order *)
  Variable model : state -> M.
  Variable phys : M -> P.

  Definition store := opt -> value.

  Record stage := mk_stage {
    desc : sdesc;
    run : store -> state -> option state;   (* None = an exception propagates out of the driver *)
    upd : store -> store                    (* option updates performed by the stage (args.x = ...) *)
  }.

  Definition agree_on (l : list opt) (o1 o2 : store) : Prop :=
    forall x, mem x l = true -> o1 x = o2 x.
  Definition agree_outside (F : list opt) (o1 o2 : store) : Prop :=
    forall x, mem x F = false -> o1 x = o2 x.

  (* equal-or-both-fail on the M part *)
  Definition same_model (a b : option state) : Prop :=
    match a, b with
    | Some s, Some t => model s = model t
    | None, None => True
    | _, _ => False
    end.

  (* The trusted meaning of a generated descriptor. *)
  Record stage_ok (st : stage) : Prop := {
    (* a Compute stage is a function of the M part and of the options it reads *)
    ok_compute : sd_kind (desc st) = Compute ->
      forall o1 o2 s1 s2, agree_on (sd_reads (desc st)) o1 o2 -> model s1 = model s2 ->
        same_model (run st o1 s1) (run st o2 s2);
    (* a Rename stage keeps coordinates, charges, radii and order *)
    ok_rename : sd_kind (desc st) = Rename ->
      forall o s t, run st o s = Some t -> phys (model t) = phys (model s);
    (* every other stage leaves the M part alone *)
    ok_other : sd_kind (desc st) <> Compute -> sd_kind (desc st) <> Rename ->
      forall o s t, run st o s = Some t -> model t = model s;
    (* option updates: only listed options change, each as a function of its deps *)
    ok_frame : forall o x, mem x (map fst (sd_writes (desc st))) = false -> upd st o x = o x;
    ok_deps : forall o1 o2 w, In w (sd_writes (desc st)) -> agree_on (snd w) o1 o2 ->
        upd st o1 (fst w) = upd st o2 (fst w)
  }.

  (* the driver: left-to-right, the first failing stage aborts the run *)
  Fixpoint exec (sts : list stage) (o : store) (s : state) : option (store * state) :=
    match sts with
    | [] => Some (o, s)
    | st :: r =>
      match run st o s with
      | None => None
      | Some s' => exec r (upd st o) s'
      end
    end.

  (* the same run with every non-Compute stage's effect on the state skipped:
     "the state after the compute stages" *)
  Fixpoint exec_compute (sts : list stage) (o : store) (s : state) : option (store * state) :=
    match sts with
    | [] => Some (o, s)
    | st :: r =>
      if kind_eqb (sd_kind (desc st)) Compute then
        match run st o s with
        | None => None
        | Some s' => exec_compute r (upd st o) s'
        end
      else exec_compute r (upd st o) s
    end.
End Semantics.

Arguments mk_stage {value state}.
Arguments desc {value state} s.
Arguments run {value state} s _ _.
Arguments upd {value state} s _.
Arguments agree_on {value}.
Arguments agree_outside {value}.
Arguments same_model {state M}.
Arguments stage_ok {value state M P}.
Arguments ok_compute {value state M P model phys st}.
Arguments ok_rename {value state M P model phys st}.
Arguments ok_other {value state M P model phys st}.
Arguments ok_frame {value state M P model phys st}.
Arguments ok_deps {value state M P model phys st}.
Arguments exec {value state}.
Arguments exec_compute {value state}.

(* ------------------------------------------------------------------ *)
(* 4. the output file                                                  *)

Inductive fstate (C : Type) :=
| Absent                (* no file at the output path *)
| Old (c : C)           (* a pre-existing file with content c *)
| Partial               (* opened for writing (truncated) but not completely written *)
| Complete (c : C).     (* completely written by this run *)
Arguments Absent {C}.
Arguments Old {C} c.
Arguments Partial {C}.
Arguments Complete {C} c.

(* where a stage raises: not at all, before doing anything, or in the middle *)
Inductive fault := NoFault | AtEntry | Inside.

Inductive outcome := Finished | Raised (i : nat).

Definition faulty (f : fault) : bool := match f with NoFault => false | _ => true end.

Section FileMachine.
  Variable C : Type.

  (* file state after stage [d] ran under fault [k]; [c] = what print_pqr writes *)
  Definition step_file (d : sdesc) (k : fault) (c : C) (f : fstate C) : fstate C :=
    if sd_writes_output d then
      match k with NoFault => Complete c | AtEntry => f | Inside => Partial end
    else f.

  Fixpoint frun (ds : list sdesc) (i : nat) (flt : nat -> fault) (c : C) (f : fstate C)
    : outcome * fstate C :=
    match ds with
    | [] => (Finished, f)
    | d :: r =>
      let f' := step_file d (flt i) c f in
      if faulty (flt i) then
        if sd_swallow d then frun r (S i) flt c f' else (Raised i, f')
      else frun r (S i) flt c f'
    end.
End FileMachine.
Arguments step_file {C}.
Arguments frun {C}.

(* printable prediction for the fault-enumeration tie: stage k raises with
   fault kind [fk], starting from [Absent] (pre = false) or [Old tt] (pre = true) *)
Definition one_fault (k : nat) (fk : fault) : nat -> fault :=
  fun i => if Nat.eqb i k then fk else NoFault.

Definition show_fstate (f : fstate bool) : string :=
  match f with
  | Absent => "absent"
  | Old _ => "old"
  | Partial => "partial"
  | Complete _ => "complete"
  end.

Definition show_prediction (ds : list sdesc) (k : nat) (fk : fault) (pre : bool) : string :=
  let init := if pre then Old false else Absent in
  let '(out, f) := frun ds 0 (one_fault k fk) true init in
  (match out with Finished => "finished" | Raised _ => "raised" end) ++ ";" ++ show_fstate f.

(* ------------------------------------------------------------------ *)
(* 5. drop_water and apply_name_scheme                                 *)

Section DropWater.
  Variable X : Type.   (* rest of a record *)

  (* a PDB record as drop_water sees it: record_type(), res_name, payload *)
  Record prec := mk_prec { r_type : string; r_res : string; r_rest : X }.

  Definition water_residue_names : list string := ["HOH"; "WAT"].      (* aa.WAT.water_residue_names *)
  Definition water_record_types : list string := ["HETATM"; "ATOM"; "SIGATM"; "SEQADV"].

  Definition is_water (r : prec) : bool :=
    mem (r_type r) water_record_types && mem (r_res r) water_residue_names.

  (* main.drop_water: a new list with the water records skipped *)
  Fixpoint drop_water (l : list prec) : list prec :=
    match l with
    | [] => []
    | r :: t => if is_water r then drop_water t else r :: drop_water t
    end.
End DropWater.
Arguments mk_prec {X}.
Arguments r_type {X}.
Arguments r_res {X}.
Arguments r_rest {X}.
Arguments is_water {X}.
Arguments drop_water {X}.

Section NameScheme.
  Variable Ph : Type.  (* x, y, z, charge, radius *)

  Record natom := mk_natom { a_name : string; a_resname : string; a_phys : Ph }.

  (* Biomolecule.apply_name_scheme: per atom, an optional (res_name, name) pair
     computed from the force field's naming table and the terminal-residue rules;
     both fields are assigned, nothing else is touched *)
  Definition rename_atom (f : natom -> option (string * string)) (a : natom) : natom :=
    match f a with
    | Some (rn, an) => mk_natom an rn (a_phys a)
    | None => a
    end.

  Definition apply_name_scheme (f : natom -> option (string * string)) (l : list natom) : list natom :=
    map (rename_atom f) l.
End NameScheme.
Arguments mk_natom {Ph}.
Arguments a_name {Ph}.
Arguments a_resname {Ph}.
Arguments a_phys {Ph}.
Arguments rename_atom {Ph}.
Arguments apply_name_scheme {Ph}.
