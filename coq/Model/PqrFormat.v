(* Model of the PQR writer and readers of pdb2pqr 3.7.1 (C08; reused by C09).

   structures.py  Atom.get_common_string_rep, Atom.get_pqr_string, Atom.from_pqr_line
   io.py          print_biomolecule_atoms, read_pqr
   main.py        print_pqr (the --whitespace re-spacing by slices)
   State of the code modelled: /repo WITH the repairs of C08-F4, C08-F5, the
   z|charge|radius fusion (a blank at every field boundary: columns 6, 16, 22,
   26, 38, 46, 54, 62) and C08-F7 (from_pqr_line skips lines starting with "#").
   + read_fixed:  reading the default layout back by the writer's own columns.

   Strings are Coq [string]s (ASCII).  Numbers are modelled AFTER Python's
   binary->decimal rounding: a coordinate / charge / radius is a sign and a
   magnitude in units of 10^-3 resp. 10^-4 ([fx]); the sign is separate because
   '%.3f' prints "-0.000" for tiny negatives.  The rounding itself is Python's
   (oracle, done by the harness with [decimal]).  nan/inf are not modelled.
   Every ljust/rjust/[:n] of the code is kept as written: overflowing fields are
   cut exactly as the code cuts them.  No proofs in this file. *)
From Coq Require Import String Ascii List Arith NArith ZArith Bool DecimalString DecimalN Decimal.
From PV Require Import Lib.Strings Lib.Decimal.
Import ListNotations.
Local Open Scope string_scope.

(* ---- decimal rendering: '%.<d>f' ---------------------------------------- *)

Record fx := mkfx { fx_neg : bool; fx_mag : N }.

(* value in units of 10^-d *)
Definition fx_value (v : fx) : Z :=
  if fx_neg v then (- Z.of_N (fx_mag v))%Z else Z.of_N (fx_mag v).

Definition N_to_string (n : N) : string := NilZero.string_of_uint (N.to_uint n).

Definition zero_char : ascii := "0"%char.

Definition zfill (w : nat) (s : string) : string :=
  repeat_char zero_char (w - String.length s) ++ s.

(* f"{v:.<d>f}" for d >= 1: digits of the magnitude, zero-filled to d+1, with
   the point before the last d digits *)
Definition fmt_fixed (d : nat) (v : fx) : string :=
  let p := zfill (S d) (N_to_string (fx_mag v)) in
  let k := String.length p - d in
  (if fx_neg v then "-" else "") ++ take k p ++ "." ++ drop k p.

(* ---- the atom as the writer sees it -------------------------------------- *)

Record atom := mkatom {
  a_type : string;          (* "ATOM" / "HETATM" *)
  a_serial : Z;
  a_name : string;
  a_res_name : string;
  a_chain : string;         (* chain_id, "" when blank *)
  a_res_seq : Z;
  a_ins : string;           (* ins_code, "" when blank *)
  a_x : fx; a_y : fx; a_z : fx;        (* 10^-3 A *)
  a_charge : option fx;     (* ffcharge, 10^-4 e; None prints 0.0000 *)
  a_radius : option fx      (* radius, 10^-4 A; None prints 0.0000 *)
}.

Definition with_serial (n : Z) (a : atom) : atom :=
  mkatom (a_type a) n (a_name a) (a_res_name a) (a_chain a) (a_res_seq a) (a_ins a)
         (a_x a) (a_y a) (a_z a) (a_charge a) (a_radius a).

(* str.strip(chars) *)
Fixpoint lstrip_p (p : ascii -> bool) (s : string) : string :=
  match s with
  | String c r => if p c then lstrip_p p r else s
  | EmptyString => s
  end.

Fixpoint rstrip_p (p : ascii -> bool) (s : string) : string :=
  match s with
  | EmptyString => EmptyString
  | String c r =>
      let r' := rstrip_p p r in
      if p c && is_empty r' then EmptyString else String c r'
  end.

Definition strip_p (p : ascii -> bool) (s : string) : string := rstrip_p p (lstrip_p p s).

Definition in_flip (c : ascii) : bool :=
  (c =? "F")%char || (c =? "L")%char || (c =? "I")%char || (c =? "P")%char.

(* if len(tstr) == 4 or len(tstr.strip("FLIP")) == 4: ljust(4)[:4] else " " + ljust(3)[:3] *)
Definition name_field (n : string) : string :=
  if (String.length n =? 4)%nat || (String.length (strip_p in_flip n) =? 4)%nat
  then take 4 (ljust 4 n)
  else " " ++ take 3 (ljust 3 n).

Definition res_field (n : string) : string :=
  if (String.length n =? 4)%nat then take 4 (ljust 4 n) else " " ++ take 3 (ljust 3 n).

(* tstr = f"{x:8.3f}"; str.ljust(tstr, 8)[:8] *)
Definition coord_field (v : fx) : string := take 8 (ljust 8 (rjust 8 (fmt_fixed 3 v))).

Definition ins_field (i : string) : string := if is_empty i then "    " else i ++ "   ".

Definition common_string (chainflag : bool) (a : atom) : string :=
  take 6 (ljust 6 (a_type a))
  ++ take 5 (rjust 5 (Z_to_string (a_serial a)))
  ++ " "
  ++ name_field (a_name a)
  ++ res_field (a_res_name a)
  ++ " "
  ++ take 1 (ljust 1 (if chainflag then a_chain a else ""))
  ++ take 4 (rjust 4 (Z_to_string (a_res_seq a)))
  ++ ins_field (a_ins a)
  ++ coord_field (a_x a) ++ coord_field (a_y a) ++ coord_field (a_z a).

Definition opt_fmt4 (o : option fx) : string :=
  match o with Some v => fmt_fixed 4 v | None => "0.0000" end.

Definition charge_field (o : option fx) : string := take 8 (rjust 8 (opt_fmt4 o)).
Definition radius_field (o : option fx) : string := take 7 (rjust 7 (opt_fmt4 o)).

(* Atom.get_pqr_string(chainflag) *)
Definition pqr_string (chainflag : bool) (a : atom) : string :=
  common_string chainflag a ++ charge_field (a_charge a) ++ radius_field (a_radius a).

(* ---- io.print_biomolecule_atoms ------------------------------------------ *)

Inductive item := ItAtom (line : string) | ItTer | ItTerEnd.

Definition item_text (it : item) : string :=
  match it with
  | ItAtom l => l ++ nl
  | ItTer => "TER" ++ nl
  | ItTerEnd => "TER" ++ nl ++ "END"
  end.

(* i = enumerate index, cur = currentchain_id (None before the first atom) *)
Fixpoint print_items_from (chainflag : bool) (i : nat) (cur : option string) (l : list atom)
  : list item :=
  match l with
  | [] => [ItTerEnd]
  | a :: r =>
      let line := ItAtom (pqr_string chainflag (with_serial (Z.of_nat i + 1) a)) in
      let rest := print_items_from chainflag (S i) (Some (a_chain a)) r in
      match cur with
      | None => line :: rest
      | Some c => if String.eqb (a_chain a) c then line :: rest else ItTer :: line :: rest
      end
  end.

Definition print_items (chainflag : bool) (l : list atom) : list item :=
  print_items_from chainflag 0 None l.

Definition print_atoms (chainflag : bool) (l : list atom) : list string :=
  map item_text (print_items chainflag l).

(* ---- main.print_pqr -------------------------------------------------------- *)

Definition respace (line : string) : string :=
  slice 0 6 line ++ " " ++ slice 6 16 line ++ " " ++ slice 16 22 line ++ " "
  ++ slice 22 26 line ++ " " ++ slice 26 38 line ++ " " ++ slice 38 46 line ++ " "
  ++ slice 46 54 line ++ " " ++ slice 54 62 line ++ " " ++ drop 62 line.

Definition is_atom_line (line : string) : bool :=
  String.eqb (slice 0 4 line) "ATOM" || String.eqb (slice 0 6 line) "HETATM".

(* what one element of pqr_lines contributes to the file *)
Definition write_line (whitespace is_cif : bool) (line : string) : string :=
  if whitespace then (if is_atom_line line then respace line else "")
  else if negb (String.eqb (slice 0 3 line) "TER") || negb is_cif then line else "".

Definition print_pqr (whitespace is_cif : bool) (lines : list string) : string :=
  String.concat "" (map (write_line whitespace is_cif) lines)
  ++ (if is_cif then "#" ++ nl else "").

(* the non-empty chunks written to the file; with --whitespace each chunk is
   one line of the file *)
Definition written_chunks (whitespace is_cif : bool) (lines : list string) : list string :=
  filter (fun s => negb (is_empty s)) (map (write_line whitespace is_cif) lines).

Definition file_chunks (whitespace is_cif : bool) (lines : list string) : list string :=
  (written_chunks whitespace is_cif lines ++ (if is_cif then [("#" ++ nl)%string] else []))%list.

(* ---- int() / float() on a whitespace-free ASCII token --------------------- *)

Definition is_digit (c : ascii) : bool :=
  let n := N_of_ascii c in ((48 <=? n) && (n <=? 57))%N.

Definition sign_split (s : string) : bool * string :=
  match s with
  | String c r =>
      if (c =? "-")%char then (true, r)
      else if (c =? "+")%char then (false, r)
      else (false, s)
  | EmptyString => (false, s)
  end.

(* digit groups separated by single underscores -> the digits; None = not an
   integer body *)
Fixpoint int_body (prev_digit : bool) (s : string) : option string :=
  match s with
  | EmptyString => if prev_digit then Some EmptyString else None
  | String c r =>
      if is_digit c then option_map (String c) (int_body true r)
      else if (c =? "_")%char && prev_digit then int_body false r
      else None
  end.

Definition digits_value (ds : string) : option N :=
  option_map N.of_uint (NilEmpty.uint_of_string ds).

(* Python int(token): [+-]?D+(_D+)*  ; None = ValueError *)
Definition py_int (s : string) : option Z :=
  let (neg, body) := sign_split s in
  match int_body false body with
  | None => None
  | Some ds =>
      option_map (fun n => if neg then (- Z.of_N n)%Z else Z.of_N n) (digits_value ds)
  end.

(* a parsed decimal: (-1)^neg * mant * 10^-scale *)
Inductive pfloat := PF (neg : bool) (mant : N) (scale : nat).

Definition pf_scaled_value (p : pfloat) : Z :=
  match p with PF neg m _ => if neg then (- Z.of_N m)%Z else Z.of_N m end.
Definition pf_scale (p : pfloat) : nat := match p with PF _ _ s => s end.

Definition dot_char : ascii := "."%char.

Fixpoint split_dot (s : string) : string * option string :=
  match s with
  | EmptyString => (EmptyString, None)
  | String c r =>
      if (c =? dot_char)%char then (EmptyString, Some r)
      else let (a, b) := split_dot r in (String c a, b)
  end.

(* [+-]? ( D+ "."? D* | "." D+ ) *)
Definition plain_decimal (s : string) : option pfloat :=
  let (neg, body) := sign_split s in
  let (ip, fpo) := split_dot body in
  let fp := match fpo with Some f => f | None => EmptyString end in
  if all_chars is_digit ip && all_chars is_digit fp && negb (is_empty (ip ++ fp))
  then option_map (fun m => PF neg m (String.length fp)) (digits_value (ip ++ fp))
  else None.

Inductive fl := FNum (p : pfloat) | FNot | FUnsup.

Definition lower (c : ascii) : ascii :=
  let n := N_of_ascii c in
  if ((65 <=? n) && (n <=? 90))%N then ascii_of_N (n + 32) else c.

Fixpoint map_chars (f : ascii -> ascii) (s : string) : string :=
  match s with EmptyString => EmptyString | String c r => String (f c) (map_chars f r) end.

(* digitpart = D ( "_"? D )*.  st: 0 nothing read yet, 1 after a digit, 2 after an
   underscore.  Some rest = a digitpart was read; None = no digitpart here *)
Fixpoint digitpart (st : nat) (s : string) : option string :=
  match s with
  | EmptyString => if (st =? 1)%nat then Some s else None
  | String c r =>
      if is_digit c then digitpart 1 r
      else if (st =? 1)%nat then (if (c =? "_")%char then digitpart 2 r else Some s)
      else None
  end.

Definition is_e (c : ascii) : bool := (c =? "e")%char || (c =? "E")%char.

(* the finite-number syntax float() accepts on an ASCII token:
   [+-]? ( digitpart? "." digitpart | digitpart "."? ) ( [eE] [+-]? digitpart )? *)
Definition float_syntax (s : string) : bool :=
  let body := snd (sign_split s) in
  let (had_i, r1) :=
    match digitpart 0 body with Some r => (true, r) | None => (false, body) end in
  let (ok_m, r3) :=
    match r1 with
    | String c r2 =>
        if (c =? dot_char)%char then
          match digitpart 0 r2 with Some r => (true, r) | None => (had_i, r2) end
        else (had_i, r1)
    | EmptyString => (had_i, r1)
    end in
  ok_m &&
  match r3 with
  | EmptyString => true
  | String c r4 =>
      if is_e c then
        match digitpart 0 (snd (sign_split r4)) with Some EmptyString => true | _ => false end
      else false
  end.

(* Python float(token) on an ASCII token.  Plain decimals are evaluated
   ([FNum]); other spellings Python accepts (exponent, underscores, inf/nan)
   are recognised but their value is outside the model ([FUnsup]); everything
   else raises ValueError ([FNot]). *)
Definition py_float (s : string) : fl :=
  match plain_decimal s with
  | Some p => FNum p
  | None =>
      let body := map_chars lower (snd (sign_split s)) in
      if mem_str body ["inf"; "infinity"; "nan"] || float_syntax s then FUnsup else FNot
  end.

(* ---- Atom.from_pqr_line ------------------------------------------------------ *)

Record patom := mkpatom {
  p_type : string;
  p_serial : Z;
  p_name : string;
  p_res_name : string;
  p_chain : option string;     (* chain_id stays None when absent *)
  p_res_seq : Z;
  p_ins : option string;       (* ins_code stays None when absent *)
  p_x : pfloat; p_y : pfloat; p_z : pfloat;
  p_charge : pfloat;           (* atom.charge *)
  p_radius : pfloat
}.

Inductive presult :=
  | PNone                      (* returns None: REMARK, TER, END, ... *)
  | PAtom (a : patom)
  | PValueError
  | PIndexError                (* words.pop(0) on an empty list *)
  | PUnsupported.              (* float() succeeds with a value outside the model *)

Definition skip_words : list string :=
  ["REMARK"; "TER"; "END"; "HEADER"; "TITLE"; "COMPND"; "SOURCE"; "KEYWDS";
   "EXPDTA"; "AUTHOR"; "REVDAT"; "JRNL"].

(* float(words.pop(0)) with continuation *)
Definition pop_float (words : list string) (k : pfloat -> list string -> presult) : presult :=
  match words with
  | [] => PIndexError
  | t :: r =>
      match py_float t with
      | FNum p => k p r
      | FNot => PValueError
      | FUnsup => PUnsupported
      end
  end.

Definition parse_tail (ty : string) (serial : Z) (name res : string)
  (chain : option string) (res_seq : Z) (words : list string) : presult :=
  match words with
  | [] => PIndexError
  | t :: r =>
      let finish (ins : option string) (x : pfloat) (ws : list string) : presult :=
        pop_float ws (fun y ws1 =>
        pop_float ws1 (fun z ws2 =>
        pop_float ws2 (fun q ws3 =>
        pop_float ws3 (fun rad _ =>
          PAtom (mkpatom ty serial name res chain res_seq ins x y z q rad))))) in
      match py_float t with
      | FNum x => finish None x r
      | FUnsup => PUnsupported
      | FNot => pop_float r (fun x ws => finish (Some t) x ws)
      end
  end.

Definition parse_fields (ty : string) (words : list string) : presult :=
  match words with
  | [] => PIndexError
  | s :: w1 =>
      match py_int s with
      | None => PValueError
      | Some serial =>
          match w1 with
          | name :: res :: t :: w4 =>
              match py_int t with
              | Some n => parse_tail ty serial name res None n w4
              | None =>
                  match w4 with
                  | [] => PIndexError
                  | t2 :: w5 =>
                      match py_int t2 with
                      | Some n => parse_tail ty serial name res (Some t) n w5
                      | None => PValueError
                      end
                  end
              end
          | _ => PIndexError
          end
      end
  end.

(* token.startswith("#") *)
Definition hash_char : ascii := "#"%char.
Definition starts_hash (t : string) : bool :=
  match t with String c _ => (c =? hash_char)%char | EmptyString => false end.

Definition from_pqr_line (line : string) : presult :=
  match tokens line with
  | [] => PIndexError
  | token :: words =>
      if starts_hash token || mem_str token skip_words then PNone
      else if mem_str token ["ATOM"; "HETATM"] then parse_fields token words
      else if String.eqb (take 4 token) "ATOM" then parse_fields "ATOM" (drop 4 token :: words)
      else if String.eqb (take 6 token) "HETATM" then parse_fields "HETATM" (drop 6 token :: words)
      else PValueError
  end.

(* io.read_pqr: atoms of all lines; the first exception aborts the read *)
Fixpoint read_pqr (lines : list string) : list patom + presult :=
  match lines with
  | [] => inl []
  | l :: r =>
      match from_pqr_line l with
      | PNone => read_pqr r
      | PAtom a =>
          match read_pqr r with
          | inl rest => inl (a :: rest)
          | inr e => inr e
          end
      | e => inr e
      end
  end.

(* ---- reading the default layout by the writer's columns -------------------- *)

Record fatom := mkfatom {
  f_type : string;
  f_serial : option Z;
  f_name : string;
  f_res_name : string;
  f_chain : string;
  f_res_seq : option Z;
  f_ins : string;
  f_x : option pfloat; f_y : option pfloat; f_z : option pfloat;
  f_charge : option pfloat; f_radius : option pfloat
}.

Definition read_fixed (line : string) : fatom :=
  mkfatom
    (strip (slice 0 6 line))
    (py_int (strip (slice 6 11 line)))
    (strip (slice 12 16 line))
    (strip (slice 16 20 line))
    (strip (slice 21 22 line))
    (py_int (strip (slice 22 26 line)))
    (strip (slice 26 27 line))
    (plain_decimal (strip (slice 30 38 line)))
    (plain_decimal (strip (slice 38 46 line)))
    (plain_decimal (strip (slice 46 54 line)))
    (plain_decimal (strip (slice 54 62 line)))
    (plain_decimal (strip (slice 62 69 line))).

(* what a faithful read-back returns for atom [a] *)
Definition pf_of (d : nat) (v : fx) : pfloat := PF (fx_neg v) (fx_mag v) d.
Definition pf_of_opt (d : nat) (o : option fx) : pfloat :=
  match o with Some v => pf_of d v | None => PF false 0 d end.

Definition expected_fixed (chainflag : bool) (a : atom) : fatom :=
  mkfatom (a_type a) (Some (a_serial a)) (a_name a) (a_res_name a)
          (if chainflag then a_chain a else "") (Some (a_res_seq a)) (a_ins a)
          (Some (pf_of 3 (a_x a))) (Some (pf_of 3 (a_y a))) (Some (pf_of 3 (a_z a)))
          (Some (pf_of_opt 4 (a_charge a))) (Some (pf_of_opt 4 (a_radius a))).

Definition expected_ws (chainflag : bool) (a : atom) : patom :=
  mkpatom (a_type a) (a_serial a) (a_name a) (a_res_name a)
          (if chainflag && negb (is_empty (a_chain a)) then Some (a_chain a) else None)
          (a_res_seq a) (if is_empty (a_ins a) then None else Some (a_ins a))
          (pf_of 3 (a_x a)) (pf_of 3 (a_y a)) (pf_of 3 (a_z a))
          (pf_of_opt 4 (a_charge a)) (pf_of_opt 4 (a_radius a)).

(* the line of the --whitespace file for atom [a] (as read_pqr sees it) *)
Definition ws_line (chainflag : bool) (a : atom) : string :=
  respace (pqr_string chainflag a ++ nl).

(* ---- the property's quantifier as a computable predicate -------------------- *)

Definition zlen (z : Z) : nat := String.length (Z_to_string z).

Definition token_ok (lo hi : nat) (s : string) : bool :=
  (lo <=? String.length s)%nat && (String.length s <=? hi)%nat && negb (any_char is_ws s).

Definition fx_in (bound : N) (v : fx) : bool := (fx_mag v <=? bound)%N.
Definition ofx_in (bound : N) (o : option fx) : bool :=
  match o with Some v => fx_in bound v | None => true end.

(* serials up to millions, residue numbers negative to five digits, insertion
   codes, 1-4 character names, coordinates across +-99999 A; charge and radius
   of physical size (|q| < 10 e, 0 <= r < 10 A) *)
Definition in_quantifier (a : atom) : bool :=
  (String.eqb (a_type a) "ATOM" || String.eqb (a_type a) "HETATM")
  && (1 <=? a_serial a)%Z && (a_serial a <=? 9999999)%Z
  && token_ok 1 4 (a_name a) && token_ok 1 4 (a_res_name a)
  && token_ok 0 1 (a_chain a)
  && (-9999 <=? a_res_seq a)%Z && (a_res_seq a <=? 99999)%Z
  && token_ok 0 1 (a_ins a)
  && fx_in 99999999 (a_x a) && fx_in 99999999 (a_y a) && fx_in 99999999 (a_z a)
  && ofx_in 99999 (a_charge a)
  && ofx_in 99999 (a_radius a)
  && match a_radius a with Some r => negb (fx_neg r) | None => true end.

(* ---- guards of the partial theorems (column capacities), computable -------- *)

Definition type_ok (a : atom) : bool :=
  String.eqb (a_type a) "ATOM" || String.eqb (a_type a) "HETATM".

Definition fits (w : nat) (s : string) : bool := (String.length s <=? w)%nat.

(* default layout: every rendered field fits its columns.
   serial <= 5 chars (-9999..99999), resSeq <= 4 chars (-999..9999),
   coordinates <= 8 chars (-999.999..9999.999), charge <= 8 chars, radius <= 7
   chars, names 0-4 blank-free chars, chain and insertion code 0-1 blank-free
   chars (chain only matters when it is printed) *)
Definition fixed_ok (chainflag : bool) (a : atom) : bool :=
  type_ok a
  && fits 5 (Z_to_string (a_serial a))
  && token_ok 0 4 (a_name a) && token_ok 0 4 (a_res_name a)
  && (negb chainflag || token_ok 0 1 (a_chain a))
  && fits 4 (Z_to_string (a_res_seq a))
  && token_ok 0 1 (a_ins a)
  && fits 8 (fmt_fixed 3 (a_x a)) && fits 8 (fmt_fixed 3 (a_y a)) && fits 8 (fmt_fixed 3 (a_z a))
  && fits 8 (opt_fmt4 (a_charge a)) && fits 7 (opt_fmt4 (a_radius a)).

(* --whitespace layout (a blank at every field boundary): the column
   capacities of the default layout, and what keeps the token grammar of
   from_pqr_line unambiguous: names non-empty, a printed chain id is not a
   digit (int() would take it for resSeq: C08-F6) and the insertion code is not
   a digit (float() would take it for x: C08-F8) *)
Definition ws_ok (chainflag : bool) (a : atom) : bool :=
  fixed_ok chainflag a
  && negb (is_empty (a_name a)) && negb (is_empty (a_res_name a))
  && (negb chainflag || negb (any_char is_digit (a_chain a)))
  && negb (any_char is_digit (a_ins a)).

(* numeric columns only (used by the C09 printing-side lemma) *)
Definition num_ok (a : atom) : bool :=
  fits 1 (a_ins a)
  && fits 8 (fmt_fixed 3 (a_x a)) && fits 8 (fmt_fixed 3 (a_y a)) && fits 8 (fmt_fixed 3 (a_z a))
  && fits 7 (opt_fmt4 (a_charge a)) && fits 6 (opt_fmt4 (a_radius a)).

(* the same with the full widths of the charge and radius columns *)
Definition num_fits (a : atom) : bool :=
  fits 1 (a_ins a)
  && fits 8 (fmt_fixed 3 (a_x a)) && fits 8 (fmt_fixed 3 (a_y a)) && fits 8 (fmt_fixed 3 (a_z a))
  && fits 8 (opt_fmt4 (a_charge a)) && fits 7 (opt_fmt4 (a_radius a)).

(* ---- show functions (correspondence harness) -------------------------------- *)

Definition show_pf (p : pfloat) : string :=
  match p with PF neg m s =>
    (if neg then "-" else "") ++ N_to_string m ++ "e-" ++ N_to_string (N.of_nat s) end.

Definition show_opt (o : option string) : string :=
  match o with Some s => "S:" ++ s | None => "N" end.

Definition bar : string := "|".

Definition show_presult (r : presult) : string :=
  match r with
  | PNone => "NONE"
  | PValueError => "ValueError"
  | PIndexError => "IndexError"
  | PUnsupported => "UNSUPPORTED"
  | PAtom a =>
      join bar ["ATOM:" ++ p_type a; Z_to_string (p_serial a); p_name a; p_res_name a;
                show_opt (p_chain a); Z_to_string (p_res_seq a); show_opt (p_ins a);
                show_pf (p_x a); show_pf (p_y a); show_pf (p_z a);
                show_pf (p_charge a); show_pf (p_radius a)]
  end.

Definition show_oz (o : option Z) : string :=
  match o with Some z => Z_to_string z | None => "ERR" end.
Definition show_opf (o : option pfloat) : string :=
  match o with Some p => show_pf p | None => "ERR" end.

Definition show_fatom (f : fatom) : string :=
  join bar [f_type f; show_oz (f_serial f); f_name f; f_res_name f; f_chain f;
            show_oz (f_res_seq f); f_ins f; show_opf (f_x f); show_opf (f_y f);
            show_opf (f_z f); show_opf (f_charge f); show_opf (f_radius f)].

Definition show_read (r : list patom + presult) : string :=
  match r with
  | inl l => join nl (map (fun a => show_presult (PAtom a)) l)
  | inr e => show_presult e
  end.

Definition show_fl (f : fl) : string :=
  match f with FNum p => show_pf p | FNot => "NOT" | FUnsup => "UNSUP" end.

(* int(t) / float(t) of one token *)
Definition show_token (t : string) : string := show_oz (py_int t) ++ "/" ++ show_fl (py_float t).

(* everything the harness compares for one atom *)
Definition sep2 : string := "@@".
Definition show_atom_case (a : atom) : string :=
  join sep2 [pqr_string false a; pqr_string true a; ws_line false a; ws_line true a;
             show_presult (from_pqr_line (ws_line false a));
             show_presult (from_pqr_line (ws_line true a));
             show_fatom (read_fixed (pqr_string false a));
             show_fatom (read_fixed (pqr_string true a))].

(* print_biomolecule_atoms + print_pqr + read_pqr on an atom list *)
Definition show_file_case (chainflag whitespace is_cif : bool) (l : list atom) : string :=
  join sep2 [String.concat "" (print_atoms chainflag l);
             print_pqr whitespace is_cif (print_atoms chainflag l);
             show_read (read_pqr (file_chunks whitespace is_cif (print_atoms chainflag l)))].

