(* C07: the independent specification [cols_read] and the (boolean, executable)
   guards under which the ingest theorem is stated.  No proofs here. *)
From Coq Require Import String Ascii List Arith NArith ZArith Bool.
From PV Require Import Lib.Strings Lib.Decimal Model.PdbRead Model.Group.
Import ListNotations.
Local Open Scope string_scope.

(* ---- specification: the fixed-column read --------------------------------- *)

(* A coordinate record is a line whose columns 1-6 name ATOM or HETATM; its
   identity is (chain, resSeq, iCode, name) read from columns 22, 23-26, 27,
   13-16 of the raw line.  The first model is everything in front of the
   second MODEL record.  cols_read returns the selected lines: first model,
   first listed per identity. *)
Definition is_coord (l : string) : bool := mem_str (rec_name l) ["ATOM"; "HETATM"].
Definition is_model (l : string) : bool := rec_name l =? "MODEL".

Fixpoint first_model (seen : bool) (lines : list string) : list string :=
  match lines with
  | [] => []
  | l :: r =>
      if is_model l then (if seen then [] else l :: first_model true r)
      else l :: first_model seen r
  end.

Definition ident := (string * option Z * string * string)%type.

Definition line_ident (l : string) : ident :=
  (strip (slice 21 22 l), py_int (slice 22 26 l), strip (slice 26 27 l), strip (slice 12 16 l)).

Definition ident_eqb (a b : ident) : bool :=
  let '(c1, n1, i1, m1) := a in
  let '(c2, n2, i2, m2) := b in
  (c1 =? c2) && (i1 =? i2) && (m1 =? m2) &&
  match n1, n2 with
  | Some x, Some y => (x =? y)%Z
  | None, None => true
  | _, _ => false
  end.

Fixpoint first_listed (seen : list ident) (ls : list string) : list string :=
  match ls with
  | [] => []
  | l :: r =>
      if existsb (ident_eqb (line_ident l)) seen then first_listed seen r
      else l :: first_listed (line_ident l :: seen) r
  end.

Definition cols_read (lines : list string) : list string :=
  first_listed [] (filter is_coord (first_model false lines)).

(* a water coordinate line, by columns 18-20 *)
Definition is_water_line (l : string) : bool :=
  is_coord l && mem_str (strip (slice 17 20 l)) water_names.

(* ---- guards ---------------------------------------------------------------- *)

Definition three : list string := ["ATOM"; "HETATM"; "MODEL"].

Section Guards.
  Variable fok : string -> bool.
  Variable tab : deftab.

  (* the relevant records one raw line contributes when nothing is suppressed *)
  Definition line_recs (raw : string) : list rec :=
    let s := strip raw in
    if is_empty s then []
    else match line_outcome fok s with ORec r => [r] | _ => [] end.

  (* G1 (per line): the line is not the EOF sentinel; a line that is - read
     raw or stripped - an ATOM/HETATM/MODEL record starts in column 1, and
     then the column parser itself accepts it (no whitespace fallback, no
     ValueError; MODEL: integer in columns 11-14) *)
  Definition g_line (raw : string) : bool :=
    negb (is_empty raw) &&
    (let s := strip raw in
     if mem_str (rec_name raw) three || mem_str (rec_name s) three then
       (lstrip raw =? raw) &&
       (if rec_name s =? "ATOM" then
          match parse_cols fok false s s with POk _ => true | _ => false end
        else if rec_name s =? "HETATM" then
          match parse_cols fok true s s with POk _ => true | _ => false end
        else match py_int (slice 10 14 s) with Some _ => true | None => false end)
     else true).

  Fixpoint atoms_of (l : list rec) : list atomrec :=
    match l with
    | [] => []
    | RAtom a :: r => a :: atoms_of r
    | _ :: r => atoms_of r
    end.

  (* G2 (design guard): blank-chain lettering is inert: no TER record, or every
     coordinate record has a chain identifier or is a water.  (With TER records a
     blank chain id denotes the chain of its TER segment, which the raw-column
     identity of [cols_read] cannot express.) *)
  Definition unlettered (a : atomrec) : bool :=
    negb (a_chain a =? "") || mem_str (a_resname a) ["WAT"; "HOH"].

  Definition inert (recs : list rec) : bool :=
    (count_ter recs =? 0)%nat || forallb unlettered (atoms_of recs).

  (* the residue runs: maximal runs of consecutive coordinate records with the
     same (resSeq, iCode, chain), also ended by END; a record whose identity is
     in a closed run ([placed]) is skipped; reading stops at the second MODEL
     record.  (Biomolecule.__init__ without its chain dictionary.) *)
  Definition cons_nel {A} (h : list A) (t : list (list A)) : list (list A) :=
    match h with [] => t | _ => h :: t end.

  Fixpoint lsegs (placed : list atomrec) (nm : nat) (pend : list atomrec) (recs : list rec)
    : list (list atomrec) :=
    match recs with
    | [] => if negb (is_nil pend) && (nm <=? 1)%nat then [pend] else []
    | RAtom a :: r =>
        if existsb (same_id a) placed then lsegs placed nm pend r
        else
        match last_atom pend with
        | Some p => if same_key a p then lsegs placed nm (pend ++ [a]) r
                    else pend :: lsegs (placed ++ pend) nm [a] r
        | None => lsegs placed nm [a] r
        end
    | REnd :: r => cons_nel pend (lsegs (placed ++ pend) nm [] r)
    | RModel :: r => if (1 <? S nm)%nat then cons_nel pend [] else lsegs placed (S nm) pend r
    | RTer :: r => lsegs placed nm pend r
    end.

  Definition rident (a : atomrec) : ident :=
    (a_chain a, Some (a_resseq a), a_icode a, a_name a).

  Definition same_ident (a b : atomrec) : bool := ident_eqb (rident a) (rident b).

  (* G5 (design guard): inside one run, the residue's alternative-name map does not send two
     different listed names to one name *)
  Definition run_rename (seg : list atomrec) (n : string) : string :=
    match last_atom seg with
    | None => n
    | Some p =>
        let rn0 := a_resname p in
        let rn := match lookup rn0 tab with Some _ => rn0 | None => rna_map rn0 end in
        match lookup rn tab with
        | Some (KGeneric, _) | None => n
        | Some (_, alts) => alt_name alts n
        end
    end.

  Definition alias_ok (seg : list atomrec) : bool :=
    forallb (fun a => forallb (fun b =>
      implb (run_rename seg (a_name a) =? run_rename seg (a_name b)) (a_name a =? a_name b)) seg) seg.

  Definition guard (lines : list string) : bool :=
    forallb g_line lines &&
    (let recs := flat_map line_recs lines in
     inert recs && forallb alias_ok (lsegs [] 0 [] recs)).

  (* guard of the "later models are ignored" theorem *)
  Definition guard_models (lines : list string) : bool :=
    forallb g_line lines && inert (flat_map line_recs lines).

  (* record_type() of a coordinate record is its record name *)
  Definition tok0_ok (a : atomrec) : bool := mem_str (a_tok0 a) ["HETATM"; "ATOM"].

End Guards.

(* ---- G1': the specification over ALL lines (no column-1 / parses-by-columns guard) ----

   read_pdb strips every line before it looks at it, so the record a line holds is
   decided by columns 1-6 of the STRIPPED line.  A coordinate line is read by fixed
   columns from itself when it is long enough for the column parser (more than 26
   characters for ATOM, more than 16 for HETATM), otherwise from the fixed-column
   line that pdb.read_atom documents (five consecutive numbers found from the
   right, the word in front of them is the residue number, columns 1-22 kept);
   when there are no five numbers the read fails (ValueError). *)
Section Spec2.
  Variable fok : string -> bool.

  Definition coord_het (s : string) : option bool :=
    if rec_name s =? "ATOM" then Some false
    else if rec_name s =? "HETATM" then Some true else None.

  Definition eff_line (het : bool) (s : string) : option string :=
    if ((if het then 16 else 26) <? String.length s)%nat then Some s else fallback_line fok s.

  (* the fixed-column text the coordinate record of [raw] is read from *)
  Definition spec_line (raw : string) : option string :=
    let s := strip raw in
    match coord_het s with Some het => eff_line het s | None => None end.

  Definition is_coord2 (raw : string) : bool :=
    match coord_het (strip raw) with Some _ => true | None => false end.

  Definition is_model2 (raw : string) : bool := rec_name (strip raw) =? "MODEL".

  Fixpoint first_model2 (seen : bool) (lines : list string) : list string :=
    match lines with
    | [] => []
    | l :: r =>
        if is_model2 l then (if seen then [] else l :: first_model2 true r)
        else l :: first_model2 seen r
    end.

  Definition line_ident2 (raw : string) : ident :=
    match spec_line raw with Some l => line_ident l | None => ("", None, "", "") end.

  Fixpoint first_listed2 (seen : list ident) (ls : list string) : list string :=
    match ls with
    | [] => []
    | l :: r =>
        if existsb (ident_eqb (line_ident2 l)) seen then first_listed2 seen r
        else l :: first_listed2 (line_ident2 l :: seen) r
    end.

  Definition cols_read2 (lines : list string) : list string :=
    first_listed2 [] (filter is_coord2 (first_model2 false lines)).

  (* the purely syntactic guard G1' (per line) *)
  Definition chunk_ok (raw : string) : bool := negb (is_empty raw).   (* a readline() chunk *)

  (* since the repairs of C07-F7 (a coordinate line without coordinates raises) and
     C07-F8 (MODEL records never fail) nothing else is needed per line *)
  Definition g1' (lines : list string) : bool := forallb chunk_ok lines.

  (* the line makes read_pdb raise ValueError *)
  Definition raises (raw : string) : bool :=
    let s := strip raw in
    negb (is_empty s) && match line_outcome fok s with ORaise => true | _ => false end.

  (* a water coordinate line: residue name (columns 18-20 of the text the record is
     read from) is a water name *)
  Definition is_water_line2 (raw : string) : bool :=
    is_coord2 raw &&
    match spec_line raw with
    | Some l => mem_str (strip (slice 17 20 l)) water_names
    | None => false
    end.

  Definition guard2 (tab : deftab) (lines : list string) : bool :=
    g1' lines &&
    (let recs := flat_map (line_recs fok) lines in
     inert recs && forallb (alias_ok tab) (lsegs [] 0 [] recs)).
End Spec2.

(* serial numbers of the atoms of a result, in Biomolecule order *)
Definition serials_of (r : result) : list Z :=
  match r with Done rs => map a_serial (all_atoms rs) | Raised _ => [] end.
