(* Model of pdb2pqr.cif.atom_site (C10): every _atom_site row is turned into
   a fixed-column PDB-style text line which is then parsed by pdb.ATOM /
   pdb.HETATM.  The assembly is modelled AS WRITTEN after the repairs
   fix_C10_P1..P6 (one blank, the atom name 4 wide with the one-letter-element
   rule, the alt-loc column = value or blank for a missing value, atom and residue
   name = the auth_ item when the loop has it and the value is present, else the
   label_ item, auth_asym_id, auth_seq_id, the insertion-code column, three
   blanks; _pdb_charge for columns 79-80), over strings, with the mmCIF dependency's missing-value
   convention as the parameter [mv] (what PdbxReader stores for an unquoted '.'
   and '?').

   Float parsing is an oracle: x, y, z (and occupancy, B) stay TEXT (the
   stripped column slices); integers go through int() = [py_int].

   Spec: [pdb_line_of_row] = the line an independent writer conforming to PDB
   v3.3 (ATOM/HETATM columns) produces for the same row, auth_* items as in
   the PDB archive's own PDB files.  No proofs here. *)
From Coq Require Import String Ascii List Arith ZArith Bool.
From PV Require Import Lib.Strings Lib.Decimal.
Import ListNotations.
Local Open Scope string_scope.

(* ---- python values, exceptions ---------------------------------------- *)

(* what is written in the CIF file for one item of one row *)
Inductive item :=
| Absent            (* the loop_ has no such column: get_value raises ValueError (list.index) *)
| Dot               (* unquoted .  *)
| Qm                (* unquoted ?  *)
| Tok (s : string). (* any other token, quotes removed *)

Notation pyval := (option string) (only parsing). (* Some s = a str, None = Python None *)

Record mvconv := { mv_dot : pyval; mv_qm : pyval }.
(* mmcif_pdbx 2.1.0 (installed): '.' -> "", '?' -> None  (pdbx/reader.py) *)
Definition mv_installed : mvconv := {| mv_dot := Some ""; mv_qm := None |}.
(* the original wwPDB pdbx reader the code was written against: tokens verbatim *)
Definition mv_legacy : mvconv := {| mv_dot := Some "."; mv_qm := Some "?" |}.

Inductive exn := TypeError | ValueError | IndexError.
Inductive res (A : Type) := Ok (a : A) | Err (e : exn).
Arguments Ok {A} a.
Arguments Err {A} e.

Definition bind {A B} (r : res A) (f : A -> res B) : res B :=
  match r with Ok a => f a | Err e => Err e end.
Notation "x <- e ;; k" := (bind e (fun x => k))
  (at level 61, e at next level, right associativity).

(* atoms.get_value(name, i) *)
Definition get (mv : mvconv) (it : item) : res pyval :=
  match it with
  | Absent => Err ValueError
  | Dot => Ok (mv_dot mv)
  | Qm => Ok (mv_qm mv)
  | Tok s => Ok (Some s)
  end.

Record row := mkrow {
  group_PDB : item; id : item; type_symbol : item; label_atom_id : item;
  label_alt_id : item; label_comp_id : item; label_asym_id : item;
  pdbx_PDB_ins_code : item; Cartn_x : item; Cartn_y : item; Cartn_z : item;
  occupancy : item; B_iso_or_equiv : item; pdbx_formal_charge : item;
  auth_seq_id : item; auth_comp_id : item; auth_asym_id : item;
  auth_atom_id : item; pdbx_PDB_model_num : item }.

(* str(v) *)
Definition py_str (v : pyval) : string :=
  match v with None => "None" | Some s => s end.
(* v + " " * (w - len(v))   : len(None) -> TypeError *)
Definition ljust_v (w : nat) (v : pyval) : res string :=
  match v with None => Err TypeError | Some s => Ok (ljust w s) end.
(* " " * (w - len(v)) + v *)
Definition rjust_v (w : nat) (v : pyval) : res string :=
  match v with None => Err TypeError | Some s => Ok (rjust w s) end.
(* v == "lit" *)
Definition eq_lit (v : pyval) (s : string) : bool :=
  match v with Some t => String.eqb t s | None => false end.

Inductive kind := KATOM | KHETATM.
Definition kind_name (k : kind) : string :=
  match k with KATOM => "ATOM" | KHETATM => "HETATM" end.

(* value in _MISSING  where  _MISSING = ("", ".", "?", None) *)
Definition is_missing (v : pyval) : bool :=
  match v with
  | None => true
  | Some s => String.eqb s "" || String.eqb s "." || String.eqb s "?"
  end.
(* int(s) for an already stripped ASCII string: optional sign, digits
   (underscore separators and non-ASCII digits are not modelled) *)
Definition py_int (s : string) : res Z :=
  let body :=
    match s with
    | String "+" rest =>
        match rest with
        | String "-" _ => None
        | String "+" _ => None
        | _ => Z_of_string rest
        end
    | _ => Z_of_string s
    end in
  match body with Some z => Ok z | None => Err ValueError end.

(* columns 79-80: "1-", "2+", blank for 0 / missing / non-integer / |charge| > 9 *)
Definition digit1 (z : Z) : option ascii :=
  match z with
  | 1 => Some "1" | 2 => Some "2" | 3 => Some "3" | 4 => Some "4" | 5 => Some "5"
  | 6 => Some "6" | 7 => Some "7" | 8 => Some "8" | 9 => Some "9" | _ => None
  end%Z%char.

Definition charge_cols (s : string) : string :=
  match py_int s with
  | Ok z =>
      match digit1 (Z.abs z) with
      | Some d => String d (String (if (0 <? z)%Z then "+"%char else "-"%char) "")
      | None => "  "
      end
  | Err _ => "  "
  end.

(* spec side *)
Definition pdb_charge (it : item) : string :=
  match it with Tok s => charge_cols s | _ => "  " end.

(* cif._pdb_charge(value): blank if value in _MISSING; int(value) ValueError -> blank;
   0 or abs > 9 -> blank; else digit + sign *)
Definition pdb_charge_v (v : pyval) : string :=
  if is_missing v then "  " else match v with Some s => charge_cols s | None => "  " end.

(* len(v) needs a str *)
Definition need_str (v : pyval) : res string :=
  match v with None => Err TypeError | Some s => Ok s end.

(* _auth_or_label(atoms, name, i):
     if "auth_" + name in atoms.attribute_list:
         value = atoms.get_value("auth_" + name, i)
         if value not in _MISSING: return value
     return atoms.get_value("label_" + name, i) *)
Definition pick (mv : mvconv) (auth label : item) : res pyval :=
  match auth with
  | Absent => get mv label
  | _ => v <- get mv auth ;; if is_missing v then get mv label else Ok v
  end.

(* ---- the line assembly of cif.atom_site (same text in all four copies;
        the HETATM copies multiply "" instead of " " in the first field) ---- *)
Definition assemble (mv : mvconv) (k : kind) (r : row) : res string :=
  let g := kind_name k in   (* the branch is taken on group_PDB == "ATOM"/"HETATM" *)
  (* 1-6 *)
  let l := match k with KATOM => ljust 6 g | KHETATM => g end in
  (* 7-11 *)
  vid <- get mv (id r) ;;
  let l := l ++ rjust 5 (py_str vid) in
  (* 12 *)
  let l := l ++ " " in
  (* 13-16: name = label_atom_id; element = type_symbol;
     if len(name) < 4 and len(element) < 2: name = " " + name;  name + " " * (4 - len(name)) *)
  vnm <- pick mv (auth_atom_id r) (label_atom_id r) ;;
  vel <- get mv (type_symbol r) ;;
  nm <- need_str vnm ;;
  pad <- (if (String.length nm <? 4)%nat
          then (el <- need_str vel ;; Ok (String.length el <? 2)%nat)
          else Ok false) ;;
  let l := l ++ ljust 4 (if pad then " " ++ nm else nm) in
  (* 17: " " if alt_loc in _MISSING else alt_loc *)
  valt <- get mv (label_alt_id r) ;;
  let l := l ++ (if is_missing valt then " " else py_str valt) in
  (* 18-20 *)
  vcomp <- pick mv (auth_comp_id r) (label_comp_id r) ;;
  comp <- rjust_v 3 vcomp ;;
  let l := l ++ comp in
  (* 21 *)
  let l := l ++ " " in
  (* 22 *)
  vasym <- get mv (auth_asym_id r) ;;
  asym <- rjust_v 1 vasym ;;
  let l := l ++ asym in
  (* 23-26 *)
  vseq <- get mv (auth_seq_id r) ;;
  let l := l ++ rjust 4 (py_str vseq) in
  (* 27: " " if ins_code in _MISSING else ins_code *)
  vins <- get mv (pdbx_PDB_ins_code r) ;;
  let l := l ++ (if is_missing vins then " " else py_str vins) in
  (* 28-30 *)
  let l := l ++ "   " in
  vx <- get mv (Cartn_x r) ;;
  let l := l ++ rjust 8 (py_str vx) in
  vy <- get mv (Cartn_y r) ;;
  let l := l ++ rjust 8 (py_str vy) in
  vz <- get mv (Cartn_z r) ;;
  let l := l ++ rjust 8 (py_str vz) in
  vocc <- get mv (occupancy r) ;;
  let l := l ++ rjust 6 (py_str vocc) in
  vb <- get mv (B_iso_or_equiv r) ;;
  let l := l ++ rjust 6 (py_str vb) in
  (* 67-76 *)
  let l := l ++ "          " in
  vts <- get mv (type_symbol r) ;;
  ts <- rjust_v 2 vts ;;
  let l := l ++ ts in
  (* 79-80: line += _pdb_charge(value) *)
  vch <- get mv (pdbx_formal_charge r) ;;
  let l := l ++ pdb_charge_v vch in
  Ok l.

(* ---- pdb.ATOM.__init__ / pdb.HETATM.__init__ (fields the property needs
        + the five trailing ones as raw text) ----------------------------- *)

Record fields := mkfields {
  f_kind : kind; f_serial : Z; f_name : string; f_alt : string;
  f_resname : string; f_chain : string; f_resseq : Z; f_ins : string;
  f_x : string; f_y : string; f_z : string;               (* text given to float() *)
  f_occ : string; f_tf : string;                           (* text given to float() *)
  f_seg : string; f_elem : string; f_chg : string }.

(* line[n] *)
Definition char_at (n : nat) (s : string) : res string :=
  match drop n s with
  | String c _ => Ok (String c "")
  | EmptyString => Err IndexError
  end.

Definition parse_atom (k : kind) (line : string) : res fields :=
  if negb (String.eqb (strip (slice 0 6 line)) (kind_name k)) then Err ValueError else
  serial <- py_int (strip (slice 6 11 line)) ;;
  let name := strip (slice 12 16 line) in
  alt <- char_at 16 line ;;
  let resname := strip (slice 17 20 line) in
  let grp :=
    (ch <- char_at 21 line ;;
     sq <- py_int (strip (slice 22 26 line)) ;;
     ic <- char_at 26 line ;;
     Ok (ch, sq, ic)) in
  (* HETATM: `except IndexError: raise ValueError` around this group *)
  let grp := match k, grp with
             | KHETATM, Err IndexError => Err ValueError
             | _, g => g
             end in
  t <- grp ;;
  let '(ch, sq, ic) := t in
  Ok {| f_kind := k; f_serial := serial; f_name := name; f_alt := strip alt;
        f_resname := resname; f_chain := strip ch; f_resseq := sq; f_ins := strip ic;
        f_x := strip (slice 30 38 line); f_y := strip (slice 38 46 line);
        f_z := strip (slice 46 54 line);
        f_occ := strip (slice 54 60 line); f_tf := strip (slice 60 66 line);
        f_seg := strip (slice 72 76 line); f_elem := strip (slice 76 78 line);
        f_chg := strip (slice 78 80 line) |}.

(* one row of the single-model loop: skipped unless group_PDB is exactly
   "ATOM" or "HETATM" *)
Definition row_kind (mv : mvconv) (r : row) : res (option kind) :=
  vg <- get mv (group_PDB r) ;;
  Ok (if eq_lit vg "ATOM" then Some KATOM
      else if eq_lit vg "HETATM" then Some KHETATM else None).

Definition row_line (mv : mvconv) (r : row) : res (option (kind * string)) :=
  ok <- row_kind mv r ;;
  match ok with
  | None => Ok None
  | Some k => l <- assemble mv k r ;; Ok (Some (k, l))
  end.

Definition row_fields (mv : mvconv) (r : row) : res (option (string * fields)) :=
  okl <- row_line mv r ;;
  match okl with
  | None => Ok None
  | Some (k, l) => f <- parse_atom k l ;; Ok (Some (l, f))
  end.

(* ---- whole atom_site(block) -------------------------------------------- *)

Inductive record :=
| RAtom (line : string) (f : fields)
| RModel (line : string) (n : option Z)
| REndmdl.

(* result so far + the exception that ended the call, if any *)
Record outcome := mkout { o_recs : list record; o_errs : list string; o_exn : option exn }.

Definition pyval_eqb (a b : pyval) : bool :=
  match a, b with
  | None, None => true
  | Some x, Some y => String.eqb x y
  | _, _ => false
  end.

Fixpoint mem_pyval (x : pyval) (l : list pyval) : bool :=
  match l with [] => false | y :: t => pyval_eqb x y || mem_pyval x t end.

(* count_models: distinct pdbx_PDB_model_num values in order of first appearance *)
Fixpoint count_models (mv : mvconv) (rows : list row) (acc : list pyval) : res (list pyval) :=
  match rows with
  | [] => Ok acc
  | r :: t =>
      v <- get mv (pdbx_PDB_model_num r) ;;
      count_models mv t (if mem_pyval v acc then acc else (acc ++ [v])%list)
  end.

(* the row loop; [sel] = the model filter of the multi-model branch *)
Fixpoint rows_loop (mv : mvconv) (sel : option pyval) (rows : list row) (acc : list record)
  : list record * option exn :=
  match rows with
  | [] => (acc, None)
  | r :: t =>
      let take_it :=
        match sel with
        | None => Ok true
        | Some j => v <- get mv (pdbx_PDB_model_num r) ;; Ok (pyval_eqb v j)
        end in
      match take_it with
      | Err e => (acc, Some e)
      | Ok false => rows_loop mv sel t acc
      | Ok true =>
          match row_fields mv r with
          | Err e => (acc, Some e)
          | Ok None => rows_loop mv sel t acc
          | Ok (Some (l, f)) => rows_loop mv sel t (acc ++ [RAtom l f])%list
          end
      end
  end.

(* "MODEL " + 4 blanks + str(j) right-justified in 4.  pdb.MODEL (after /repo 04a78e7) never
   raises on it: serial = int(line[10:14].strip()), or on ValueError the first word after the
   record name if it is all digits, else None *)
Definition model_line (j : pyval) : string := "MODEL " ++ "    " ++ rjust 4 (py_str j).

Definition is_dig (c : ascii) : bool :=
  let n := nat_of_ascii c in (48 <=? n)%nat && (n <=? 57)%nat.

Definition model_serial (ml : string) : option Z :=
  match py_int (strip (slice 10 14 ml)) with
  | Ok n => Some n
  | Err _ =>
      match tokens (drop 6 ml) with
      | w :: _ => if all_chars is_dig w then Z_of_string w else None
      | [] => None
      end
  end.

Fixpoint models_loop (mv : mvconv) (models : list pyval) (rows : list row)
  (acc : list record) (errs : list string) : outcome :=
  match models with
  | [] => mkout acc errs None
  | j :: t =>
      let ml := model_line j in
      let acc := (acc ++ [RModel ml (model_serial ml)])%list in
      match rows_loop mv (Some j) rows acc with
      | (acc, Some e) => mkout acc errs (Some e)
      | (acc, None) => models_loop mv t rows (acc ++ [REndmdl])%list errs
      end
  end.

Definition atom_site (mv : mvconv) (rows : list row) : outcome :=
  match count_models mv rows [] with
  | Err e => mkout [] [] (Some e)
  | Ok models =>
      if Nat.eqb (List.length models) 1 then
        let '(acc, e) := rows_loop mv None rows [] in mkout acc [] e
      else models_loop mv models rows [] []
  end.

(* ---- spec: an independent PDB v3.3 writer for the same row ------------- *)

Definition tok_or (d : string) (it : item) : string :=
  match it with Tok s => s | _ => d end.

(* columns 13-16: names shorter than 4 whose element symbol has one letter
   start in column 14 *)
Definition pdb_name (name elem : string) : string :=
  if (String.length name <? 4)%nat && (String.length elem <? 2)%nat
  then " " ++ ljust 3 name else ljust 4 name.

(* the author's name when the row gives one, else the label name *)
Definition eff (auth label : item) : item :=
  match auth with Tok _ => auth | _ => label end.
Definition name_item (r : row) : item := eff (auth_atom_id r) (label_atom_id r).
Definition comp_item (r : row) : item := eff (auth_comp_id r) (label_comp_id r).

Definition pdb_line_of_row (r : row) : string :=
  ljust 6 (tok_or "" (group_PDB r))
  ++ rjust 5 (tok_or "" (id r))
  ++ " "
  ++ pdb_name (tok_or "" (name_item r)) (tok_or "" (type_symbol r))
  ++ ljust 1 (tok_or "" (label_alt_id r))
  ++ rjust 3 (tok_or "" (comp_item r))
  ++ " "
  ++ ljust 1 (tok_or "" (auth_asym_id r))
  ++ rjust 4 (tok_or "" (auth_seq_id r))
  ++ ljust 1 (tok_or "" (pdbx_PDB_ins_code r))
  ++ "   "
  ++ rjust 8 (tok_or "" (Cartn_x r))
  ++ rjust 8 (tok_or "" (Cartn_y r))
  ++ rjust 8 (tok_or "" (Cartn_z r))
  ++ rjust 6 (tok_or "" (occupancy r))
  ++ rjust 6 (tok_or "" (B_iso_or_equiv r))
  ++ "          "
  ++ rjust 2 (tok_or "" (type_symbol r))
  ++ pdb_charge (pdbx_formal_charge r).

Definition spec_kind (r : row) : option kind :=
  match group_PDB r with
  | Tok g => if String.eqb g "ATOM" then Some KATOM
             else if String.eqb g "HETATM" then Some KHETATM else None
  | _ => None
  end.

(* the atom the row denotes (what both readers must produce); [chg] = columns 79-80 stripped *)
Definition fields_of_row_chg (k : kind) (serial seq : Z) (r : row) (chg : string) : fields :=
  {| f_kind := k; f_serial := serial;
     f_name := tok_or "" (name_item r);
     f_alt := tok_or "" (label_alt_id r);
     f_resname := tok_or "" (comp_item r);
     f_chain := tok_or "" (auth_asym_id r);
     f_resseq := seq;
     f_ins := tok_or "" (pdbx_PDB_ins_code r);
     f_x := tok_or "" (Cartn_x r); f_y := tok_or "" (Cartn_y r); f_z := tok_or "" (Cartn_z r);
     f_occ := tok_or "" (occupancy r); f_tf := tok_or "" (B_iso_or_equiv r);
     f_seg := ""; f_elem := tok_or "" (type_symbol r);
     f_chg := chg |}.

Definition fields_of_row (k : kind) (serial seq : Z) (r : row) : fields :=
  fields_of_row_chg k serial seq r (strip (pdb_charge (pdbx_formal_charge r))).

(* the fields the property is about *)
Definition primary (f : fields) : kind * Z * string * string * string * string * Z * string
                                  * string * string * string :=
  (f_kind f, f_serial f, f_name f, f_alt f, f_resname f, f_chain f, f_resseq f, f_ins f,
   f_x f, f_y f, f_z f).

Definition kind_eqb (a b : kind) : bool :=
  match a, b with KATOM, KATOM | KHETATM, KHETATM => true | _, _ => false end.

Definition primary_eqb (f g : fields) : bool :=
  kind_eqb (f_kind f) (f_kind g) && (f_serial f =? f_serial g)%Z
  && String.eqb (f_name f) (f_name g) && String.eqb (f_alt f) (f_alt g)
  && String.eqb (f_resname f) (f_resname g) && String.eqb (f_chain f) (f_chain g)
  && (f_resseq f =? f_resseq g)%Z && String.eqb (f_ins f) (f_ins g)
  && String.eqb (f_x f) (f_x g) && String.eqb (f_y f) (f_y g) && String.eqb (f_z f) (f_z g).

(* ---- guards (decidable) ------------------------------------------------- *)

Definition noblank (s : string) : bool := negb (any_char is_ws s).
Definition okv (lo hi : nat) (s : string) : bool :=
  noblank s && (lo <=? String.length s)%nat && (String.length s <=? hi)%nat.
Definition tokp (p : string -> bool) (it : item) : bool :=
  match it with Tok s => p s | _ => false end.
Definition missing (it : item) : bool :=
  match it with Dot | Qm => true | _ => false end.
Definition missing_or (p : string -> bool) (it : item) : bool :=
  match it with Dot | Qm => true | Tok s => p s | Absent => false end.
Definition is_int (s : string) : bool :=
  match py_int s with Ok _ => true | Err _ => false end.
Definition item_eqb (a b : item) : bool :=
  match a, b with
  | Tok x, Tok y => String.eqb x y
  | _, _ => false
  end.

(* a value that is literally "." or "?" cannot be told from the mmCIF missing-value markers
   once the library hands tokens over verbatim: outside the domain *)
Definition not_marker (s : string) : bool := negb (String.eqb s "." || String.eqb s "?").
Definition plain1 (s : string) : bool := okv 1 1 s && not_marker s.
Definition okvp (lo hi : nat) (s : string) : bool := okv lo hi s && not_marker s.

(* the row is expressible as one PDB ATOM/HETATM record *)
Definition expressible (r : row) : bool :=
  match spec_kind r with Some _ => true | None => false end
  && tokp (fun s => okv 1 5 s && is_int s) (id r)
  && tokp (okvp 1 4) (name_item r)
  && missing_or plain1 (label_alt_id r)
  && tokp (okvp 1 3) (comp_item r)
  && tokp (okv 1 1) (auth_asym_id r)
  && tokp (fun s => okv 1 4 s && is_int s) (auth_seq_id r)
  && missing_or plain1 (pdbx_PDB_ins_code r)
  && tokp (okv 1 8) (Cartn_x r) && tokp (okv 1 8) (Cartn_y r) && tokp (okv 1 8) (Cartn_z r)
  && tokp (okv 1 6) (occupancy r) && tokp (okv 1 6) (B_iso_or_equiv r)
  && tokp (okv 1 2) (type_symbol r)
  && missing_or noblank (pdbx_formal_charge r).

(* library conventions covered: '.' and '?' arrive as one of "", ".", "?", None *)
Definition mv_ok (mv : mvconv) : bool := is_missing (mv_dot mv) && is_missing (mv_qm mv).

(* no refuted class is left inside [expressible]; the name is kept for the users of this model *)
Definition guard (r : row) : bool := expressible r.

(* columns 79-80 of the PDB record are blank (no formal charge to carry) *)
Definition charge_blank (r : row) : bool :=
  String.eqb (strip (pdb_charge (pdbx_formal_charge r))) "".

(* ---- rendering for the differential harness ----------------------------- *)

Definition exn_name (e : exn) : string :=
  match e with TypeError => "TypeError" | ValueError => "ValueError" | IndexError => "IndexError" end.

Definition show_fields (f : fields) : string :=
  join "|" [kind_name (f_kind f); Z_to_string (f_serial f); f_name f; f_alt f; f_resname f;
            f_chain f; Z_to_string (f_resseq f); f_ins f; f_x f; f_y f; f_z f;
            f_occ f; f_tf f; f_seg f; f_elem f; f_chg f].

Definition show_record (rc : record) : string :=
  match rc with
  | RAtom l f => "A|" ++ l ++ "|" ++ show_fields f
  | RModel l n => "M|" ++ l ++ "|" ++ match n with Some z => Z_to_string z | None => "None" end
  | REndmdl => "E"
  end.

Definition show_outcome (o : outcome) : string :=
  let e1 := "ERRS:" ++ join "," (o_errs o) in
  let e2 := "EXN:" ++ match o_exn o with Some e => exn_name e | None => "-" end in
  join nl (List.app (map show_record (o_recs o)) [e1; e2]).

Definition show_bool (b : bool) : string := if b then "1" else "0".

(* spec side, for the harness writer cross-check *)
Definition show_spec (r : row) : string :=
  match spec_kind r with
  | None => "NOKIND"
  | Some k =>
      let l := pdb_line_of_row r in
      l ++ "|" ++ match parse_atom k l with
                  | Ok f => show_fields f
                  | Err e => exn_name e
                  end
  end.

(* ---- the property on one row, as a decidable statement -------------------- *)

(* both readers succeed and give the same atom (the fields the property names) *)
Definition agrees (mv : mvconv) (r : row) : Prop :=
  exists k l f fs,
    spec_kind r = Some k /\ row_fields mv r = Ok (Some (l, f)) /\
    parse_atom k (pdb_line_of_row r) = Ok fs /\ primary f = primary fs.

Definition agreesb (mv : mvconv) (r : row) : bool :=
  match spec_kind r with
  | None => false
  | Some k =>
      match row_fields mv r, parse_atom k (pdb_line_of_row r) with
      | Ok (Some (_, f)), Ok fs => primary_eqb f fs
      | _, _ => false
      end
  end.

(* ---- witness rows: w_plain .. w_label were the refutation witnesses of the classes repaired by
        fix_C10_P1..P4 (now regression cases that must agree); w_comp / w_atomname refute what is left;
        all replayed on the real code by the harness *)

Definition mk (g id ts nm : string) (alt : item) (comp asym : string) (ins : item)
  (x y z occ b : string) (chg : item) (seq acomp aasym anm : string) : row :=
  mkrow (Tok g) (Tok id) (Tok ts) (Tok nm) alt (Tok comp) (Tok asym) ins (Tok x) (Tok y) (Tok z)
        (Tok occ) (Tok b) chg (Tok seq) (Tok acomp) (Tok aasym) (Tok anm) (Tok "1").

Definition w_plain := mk "ATOM" "7" "C" "CA" Dot "LYS" "A" Qm "-10.123" "16.581" "2.104" "1.00" "20.55" Qm "12" "LYS" "A" "CA".
Definition w_alt   := mk "ATOM" "7" "C" "CA" (Tok "A") "LYS" "A" Qm "-10.123" "16.581" "2.104" "0.50" "20.55" Qm "12" "LYS" "A" "CA".
Definition w_name4 := mk "ATOM" "7" "H" "HD21" Dot "ASN" "A" Qm "-10.123" "16.581" "2.104" "1.00" "20.55" Qm "12" "ASN" "A" "HD21".
Definition w_ins   := mk "ATOM" "7" "C" "CA" Dot "LYS" "A" (Tok "B") "-10.123" "16.581" "2.104" "1.00" "20.55" Qm "12" "LYS" "A" "CA".
Definition w_wide  := mk "ATOM" "7" "C" "CA" Dot "LYS" "A" Qm "-100.123" "16.581" "2.104" "1.00" "20.55" Qm "12" "LYS" "A" "CA".
Definition w_occ   := mk "ATOM" "7" "C" "CA" Dot "LYS" "A" Qm "-10.123" "16.581" "2.104" "1.0000" "20.55" Qm "12" "LYS" "A" "CA".
Definition w_label := mk "HETATM" "478" "O" "O" Dot "HOH" "B" Qm "31.221" "16.581" "2.104" "1.00" "20.55" Qm "62" "HOH" "A" "O".
Definition w_charge := mk "ATOM" "7" "N" "NZ" Dot "LYS" "A" Qm "-10.123" "16.581" "2.104" "1.00" "20.55" (Tok "1") "12" "LYS" "A" "NZ".
Definition w_comp := mk "HETATM" "478" "O" "O" Dot "WAT" "A" Qm "31.221" "16.581" "2.104" "1.00" "20.55" Qm "62" "HOH" "A" "O".
Definition w_atomname := mk "ATOM" "7" "C" "CA" Dot "LYS" "A" Qm "-10.123" "16.581" "2.104" "1.00" "20.55" Qm "12" "LYS" "A" "CA1".
(* a non-archive file: no auth_atom_id / auth_comp_id columns (auth_comp_id given as '?') *)
Definition w_noauth := mkrow (Tok "ATOM") (Tok "7") (Tok "C") (Tok "CA") Dot (Tok "LYS") (Tok "A") Qm
  (Tok "-10.123") (Tok "16.581") (Tok "2.104") (Tok "1.00") (Tok "20.55") (Tok "-2") (Tok "12") Qm (Tok "A") Absent (Tok "1").
Definition fixed_witnesses := [w_plain; w_alt; w_name4; w_ins; w_wide; w_occ; w_label; w_charge; w_comp; w_atomname; w_noauth].

(* ---- cif.read_cif: the other category handlers run before (header, title, compnd, source,
        keywds, expdata, author, ssbond, cispep, cryst1, origxn, scalen) and after (conect)
        atom_site; each returns (records, error names) or raises.  Their records are opaque
        here ([O]); only their not raising matters for the atoms. --------------------------- *)

Inductive frec (O : Type) := FOther (o : O) | FSite (r : record).
Arguments FOther {O} o.
Arguments FSite {O} r.

Definition hres (O : Type) : Type := res (list O * list string).

Fixpoint run_handlers {O : Type} (hs : list (hres O)) : hres O :=
  match hs with
  | [] => Ok ([], [])
  | h :: t =>
      p <- h ;; q <- run_handlers t ;;
      Ok ((fst p ++ fst q)%list, (snd p ++ snd q)%list)
  end.

(* pdblist = head + ... + sc + ato + con ; errlist likewise; the first raise ends the call *)
Definition read_cif {O : Type} (mv : mvconv) (rows : list row) (pre post : list (hres O))
  : res (list (frec O) * list string) :=
  a <- run_handlers pre ;;
  let o := atom_site mv rows in
  match o_exn o with
  | Some e => Err e
  | None =>
      c <- run_handlers post ;;
      Ok ((map FOther (fst a) ++ map FSite (o_recs o) ++ map FOther (fst c))%list,
          (snd a ++ o_errs o ++ snd c)%list)
  end.

(* the coordinate records of the result *)
Definition site_recs {O : Type} (l : list (frec O)) : list record :=
  flat_map (fun x => match x with FSite r => [r] | FOther _ => [] end) l.

(* cif._optional_records(handler, block) (fix_c10_r4): a handler that raises AttributeError,
   IndexError, KeyError, TypeError or ValueError yields no records and its own name in the error
   list.  Every exception this model has (TypeError, ValueError, IndexError) is in that tuple. *)
Definition optional_records {O : Type} (h : string * hres O) : hres O :=
  match snd h with
  | Ok p => Ok p
  | Err (TypeError | ValueError | IndexError) => Ok ([], [fst h])
  end.

(* read_cif as repaired: the 13 non-coordinate handlers go through _optional_records, atom_site does not *)
Definition read_cif_guarded {O : Type} (mv : mvconv) (rows : list row) (pre post : list (string * hres O))
  : res (list (frec O) * list string) :=
  read_cif mv rows (map optional_records pre) (map optional_records post).

(* ---- file layer of the mmCIF route: io.get_molecule(input_path) ------------------------
   path.suffix.lower() == ".cif"  ->  cif.read_cif(file)   (is_cif = True)
   otherwise                       ->  pdb.read_pdb(file)
   The CONTENT of the file plays no part in the choice.  [suffix] is pathlib's Path.suffix. *)

Inductive route := RCif | RPdb.

Definition lower_c (c : ascii) : ascii :=
  let n := nat_of_ascii c in
  if (65 <=? n)%nat && (n <=? 90)%nat then ascii_of_nat (n + 32) else c.

Fixpoint lower_s (s : string) : string :=
  match s with EmptyString => EmptyString | String c r => String (lower_c c) (lower_s r) end.

Definition classify_input (suffix text : string) : route :=
  if String.eqb (lower_s suffix) ".cif" then RCif else RPdb.

Definition show_route (r : route) : string := match r with RCif => "cif" | RPdb => "pdb" end.

(* what the generator of the harness calls a legal opening of an mmCIF file: blank lines and
   comment lines (the CIF 1.1 magic code, banners), blanks, then the data_ keyword in any case *)
Definition is_blank_c (c : ascii) : bool :=
  let n := nat_of_ascii c in (n =? 32)%nat || (n =? 9)%nat || (n =? 10)%nat || (n =? 13)%nat.
Definition is_eol_c (c : ascii) : bool :=
  let n := nat_of_ascii c in (n =? 10)%nat || (n =? 13)%nat.

Fixpoint skip_line (s : string) : string :=
  match s with
  | EmptyString => EmptyString
  | String c r => if is_eol_c c then r else skip_line r
  end.

Definition starts_data (s : string) : bool := String.eqb (lower_s (take 5 s)) "data_".

Fixpoint legal_opening_fuel (fuel : nat) (s : string) : bool :=
  match fuel with
  | O => false
  | S f =>
      match s with
      | EmptyString => false
      | String c r =>
          if is_blank_c c then legal_opening_fuel f r
          else if (nat_of_ascii c =? 35)%nat then legal_opening_fuel f (skip_line r)
          else starts_data s
      end
  end.

Definition legal_opening (s : string) : bool := legal_opening_fuel (S (String.length s)) s.

(* several data blocks (fix_c10_f25): a block without an atom_site category is skipped; of the
   blocks that have one, the records of the last are kept (as before) *)
Definition cblock (O : Type) : Type :=
  (option (list row) * (list (string * hres O) * list (string * hres O)))%type.

Fixpoint read_cif_blocks {O : Type} (mv : mvconv) (bs : list (cblock O))
  (acc : list (frec O) * list string) : res (list (frec O) * list string) :=
  match bs with
  | [] => Ok acc
  | (None, _) :: t => read_cif_blocks mv t acc
  | (Some rows, (pre, post)) :: t =>
      r <- read_cif_guarded mv rows pre post ;; read_cif_blocks mv t r
  end.
