(* Model of pdb2pqr/quatfit.py and of utilities.dihedral (C15; reused by C04/C05).

   Kind A (DESIGN 2.1): every kernel is written ONCE inside a Section over a
   record of arithmetic operations [Arith A] and instantiated twice:
     - [FArith] : PrimFloat binary64, executed by vm_compute; the operation
       order of every expression is the order CPython evaluates it in, so the
       results are bit-identical wherever the code uses only + - * / sqrt abs;
     - [RArith] : Coq's real numbers, on which Proofs/Quatfit.v proves the
       geometry.
   The rounding gap between the two instances is NOT proved (trusted base).

   Oracles (not modelled, passed in as values): math.cos / math.sin of the
   rotation angle, math.acos, numpy.linalg.norm (BLAS summation order), numpy
   inner products.  The model also contains its own norm ([norm3]) and inner
   product, used by the R instance and compared with numpy to 1e-12.

   This file contains definitions only (no proofs). *)
From Coq Require Import List ZArith Bool String.
From Coq Require Import PrimFloat Uint63.
From Coq Require Import Reals.
From PV Require Import Lib.Decimal.
Import ListNotations.

Record Arith (A : Type) := mkArith {
  a_zero : A;
  a_one : A;
  a_two : A;
  a_half : A;          (* 0.5 *)
  a_tol : A;           (* 1e-12, jacobi convergence *)
  a_small : A;         (* config.SMALL_NUMBER = 1e-7 *)
  a_r2d : A;           (* config.RADIANS_TO_DEGREES = 57.2958 (sic) *)
  a_180 : A;
  a_add : A -> A -> A;
  a_sub : A -> A -> A;
  a_mul : A -> A -> A;
  a_div : A -> A -> A;
  a_sqrt : A -> A;
  a_abs : A -> A;
  a_ltb : A -> A -> bool;
  a_leb : A -> A -> bool;
  a_eqb : A -> A -> bool;
  a_ofZ : Z -> A       (* int -> float conversion *)
}.

Declare Scope ar_scope.
Delimit Scope ar_scope with ar.

Section Kernels.
  Context {A : Type} (ar : Arith A).

  Local Notation "x + y" := (a_add A ar x y) : ar_scope.
  Local Notation "x - y" := (a_sub A ar x y) : ar_scope.
  Local Notation "x * y" := (a_mul A ar x y) : ar_scope.
  Local Notation "x / y" := (a_div A ar x y) : ar_scope.
  Local Notation "x <? y" := (a_ltb A ar x y) : ar_scope.
  Local Notation "x <=? y" := (a_leb A ar x y) : ar_scope.
  Local Notation c0 := (a_zero A ar).
  Local Notation c1 := (a_one A ar).
  Local Notation c2 := (a_two A ar).
  Local Notation absf := (a_abs A ar).
  Local Notation sqrtf := (a_sqrt A ar).
  Local Notation ofZ := (a_ofZ A ar).
  Local Open Scope ar_scope.

  (* ---------------------------------------------------------------- *)
  (* points and 3x3 matrices                                           *)

  Definition pt : Type := A * A * A.
  Definition px (p : pt) : A := fst (fst p).
  Definition py (p : pt) : A := snd (fst p).
  Definition pz (p : pt) : A := snd p.

  (* rows: m = (row0, row1, row2), row i = (m[i][0], m[i][1], m[i][2]) *)
  Definition mat3 : Type := pt * pt * pt.
  Definition row0 (m : mat3) : pt := fst (fst m).
  Definition row1 (m : mat3) : pt := snd (fst m).
  Definition row2 (m : mat3) : pt := snd m.

  Definition quat : Type := A * A * A * A.
  Definition q0 (q : quat) : A := fst (fst (fst q)).
  Definition q1 (q : quat) : A := snd (fst (fst q)).
  Definition q2 (q : quat) : A := snd (fst q).
  Definition q3 (q : quat) : A := snd q.

  (* ---------------------------------------------------------------- *)
  (* center, translate, rotmol                                         *)

  (* `acc += coords[i][k]` starting from 0.0 *)
  Definition sum_coord (f : pt -> A) (l : list pt) : A :=
    fold_left (fun acc p => acc + f p) l c0.

  (* quatfit.center on the first numpoints entries (l is already cut) *)
  Definition center (l : list pt) : pt * list pt :=
    let n := ofZ (Z.of_nat (List.length l)) in
    let c := (sum_coord px l / n, sum_coord py l / n, sum_coord pz l / n) in
    (c, map (fun p => (px p - px c, py p - py c, pz p - pz c)) l).

  (* quatfit.translate: mode 1 -> modif = -1, mode 2 -> modif = 1, else 0;
     the code computes  refcoords[i][k] + modif * center_[k]  *)
  Definition modif_of_mode (mode : Z) : Z :=
    if (mode =? 1)%Z then (-1)%Z else if (mode =? 2)%Z then 1%Z else 0%Z.

  Definition translate1 (mode : Z) (c p : pt) : pt :=
    let m := ofZ (modif_of_mode mode) in
    (px p + m * px c, py p + m * py c, pz p + m * pz c).

  Definition translate (mode : Z) (c : pt) (l : list pt) : list pt :=
    map (translate1 mode c) l.

  (* quatfit.rotmol: out[k] = lrot[0][k]*v0 + lrot[1][k]*v1 + lrot[2][k]*v2
     (the TRANSPOSE of lrot is applied) *)
  Definition rot1 (m : mat3) (v : pt) : pt :=
    (px (row0 m) * px v + px (row1 m) * py v + px (row2 m) * pz v,
     py (row0 m) * px v + py (row1 m) * py v + py (row2 m) * pz v,
     pz (row0 m) * px v + pz (row1 m) * py v + pz (row2 m) * pz v).

  Definition rotmol (m : mat3) (l : list pt) : list pt := map (rot1 m) l.

  (* ---------------------------------------------------------------- *)
  (* q2mat                                                             *)

  Definition q2mat (q : quat) : mat3 :=
    let a := q0 q in let b := q1 q in let c := q2 q in let d := q3 q in
    ((a * a + b * b - c * c - d * d, c2 * (b * c - a * d), c2 * (b * d + a * c)),
     (c2 * (c * b + a * d), a * a - b * b + c * c - d * d, c2 * (c * d - a * b)),
     (c2 * (d * b - a * c), c2 * (d * c + a * b), a * a - b * b - c * c + d * d)).

  (* ---------------------------------------------------------------- *)
  (* qtrfit: the 4x4 matrix                                            *)

  (* `acc += defcoords[i][a] * refcoords[i][b]` *)
  Definition sum_prod (f g : pt -> A) (l : list (pt * pt)) : A :=
    fold_left (fun acc xy => acc + f (fst xy) * g (snd xy)) l c0.

  (* the ten upper-triangle entries, in the order
     c00 c01 c02 c03 c11 c12 c13 c22 c23 c33 *)
  Record cm : Type := mkcm {
    c00 : A; c01 : A; c02 : A; c03 : A; c11 : A; c12 : A; c13 : A;
    c22 : A; c23 : A; c33 : A }.

  (* defs = defcoords (x), refs = refcoords (y) of qtrfit *)
  Definition cmat (defs refs : list pt) : cm :=
    let l := combine defs refs in
    let xxyx := sum_prod px px l in
    let xxyy := sum_prod px py l in
    let xxyz := sum_prod px pz l in
    let xyyx := sum_prod py px l in
    let xyyy := sum_prod py py l in
    let xyyz := sum_prod py pz l in
    let xzyx := sum_prod pz px l in
    let xzyy := sum_prod pz py l in
    let xzyz := sum_prod pz pz l in
    mkcm (xxyx + xyyy + xzyz) (xzyy - xyyz) (xxyz - xzyx) (xyyx - xxyy)
         (xxyx - xyyy - xzyz) (xxyy + xyyx) (xzyx + xxyz)
         (xyyy - xzyz - xxyx) (xyyz + xzyy)
         (xzyz - xxyx - xyyy).

  (* the list-of-lists handed to jacobi: lower triangle stays 0.0 *)
  Definition cm_rows (c : cm) : list (list A) :=
    [[c00 c; c01 c; c02 c; c03 c];
     [c0; c11 c; c12 c; c13 c];
     [c0; c0; c22 c; c23 c];
     [c0; c0; c0; c33 c]].

  (* q^T C q for the symmetric matrix whose upper triangle is c *)
  Definition rayleigh (c : cm) (q : quat) : A :=
    c00 c * (q0 q * q0 q) + c11 c * (q1 q * q1 q) + c22 c * (q2 q * q2 q) + c33 c * (q3 q * q3 q)
    + c2 * (c01 c * (q0 q * q1 q) + c02 c * (q0 q * q2 q) + c03 c * (q0 q * q3 q)
            + c12 c * (q1 q * q2 q) + c13 c * (q1 q * q3 q) + c23 c * (q2 q * q3 q)).

  Definition qnorm2 (q : quat) : A :=
    q0 q * q0 q + q1 q * q1 q + q2 q * q2 q + q3 q * q3 q.

  (* ---------------------------------------------------------------- *)
  (* jacobi                                                            *)

  Definition vec : Type := list A.
  Definition mat : Type := list vec.

  Definition vget (v : vec) (i : nat) : A := nth i v c0.
  Fixpoint vset (v : vec) (i : nat) (x : A) : vec :=
    match v, i with
    | [], _ => []
    | _ :: t, O => x :: t
    | h :: t, S i' => h :: vset t i' x
    end.
  Definition mget (m : mat) (i j : nat) : A := vget (nth i m []) j.
  Fixpoint mset (m : mat) (i j : nat) (x : A) : mat :=
    match m, i with
    | [], _ => []
    | r :: t, O => vset r j x :: t
    | r :: t, S i' => r :: mset t i' j x
    end.

  Definition jstate : Type := mat * mat * vec.   (* amat, vmat, dvec *)

  (* `for j in range(1,4): for i in range(j)` - also the order of the onorm sum *)
  Definition pairs : list (nat * nat) :=
    [(0, 1); (0, 2); (1, 2); (0, 3); (1, 3); (2, 3)]%nat.

  Definition ident4 : mat :=
    [[c1; c0; c0; c0]; [c0; c1; c0; c0]; [c0; c0; c1; c0]; [c0; c0; c0; c1]].

  Definition jinit (am : mat) : jstate :=
    (am, ident4, map (fun j => mget am j j) (seq 0 4)).

  (* `dnorm != 0 and onorm / dnorm <= 1e-12` *)
  Definition jconverged (st : jstate) : bool :=
    let '(am, _, dv) := st in
    let dnorm := fold_left (fun acc j => acc + absf (vget dv j)) (seq 0 4) c0 in
    let onorm := fold_left (fun acc ij => acc + absf (mget am (fst ij) (snd ij))) pairs c0 in
    negb (a_eqb A ar dnorm c0) && (onorm / dnorm <=? a_tol A ar).

  (* one plane rotation (the body of the double loop) *)
  Definition jrot (st : jstate) (ij : nat * nat) : jstate :=
    let '(am, vm, dv) := st in
    let i := fst ij in
    let j := snd ij in
    let bscl := mget am i j in
    if c0 <? absf bscl then
      let dma := vget dv j - vget dv i in
      let tscl :=
        if absf dma + absf bscl <=? absf dma then bscl / dma
        else
          let qscl := a_half A ar * dma / bscl in
          let t := c1 / (absf qscl + sqrtf (c1 + qscl * qscl)) in
          if qscl <? c0 then t * ofZ (-1) else t in
      let cscl := c1 / sqrtf (tscl * tscl + c1) in
      let sscl := tscl * cscl in
      let am := mset am i j c0 in
      let am :=
        fold_left
          (fun am k =>
             let atemp := cscl * mget am k i - sscl * mget am k j in
             let am := mset am k j (sscl * mget am k i + cscl * mget am k j) in
             mset am k i atemp)
          (seq 0 i) am in
      let am :=
        fold_left
          (fun am k =>
             let atemp := cscl * mget am i k - sscl * mget am k j in
             let am := mset am k j (sscl * mget am i k + cscl * mget am k j) in
             mset am i k atemp)
          (seq (S i) (j - S i)) am in
      let am :=
        fold_left
          (fun am k =>
             let atemp := cscl * mget am i k - sscl * mget am j k in
             let am := mset am j k (sscl * mget am i k + cscl * mget am j k) in
             mset am i k atemp)
          (seq (S j) (4 - S j)) am in
      let vm :=
        fold_left
          (fun vm k =>
             let vtemp := cscl * mget vm k i - sscl * mget vm k j in
             let vm := mset vm k j (sscl * mget vm k i + cscl * mget vm k j) in
             mset vm k i vtemp)
          (seq 0 4) vm in
      let di := vget dv i in
      let dj := vget dv j in
      let dtemp := cscl * cscl * di + sscl * sscl * dj - c2 * cscl * sscl * bscl in
      let dv := vset dv j (sscl * sscl * di + cscl * cscl * dj + c2 * cscl * sscl * bscl) in
      let dv := vset dv i dtemp in
      (am, vm, dv)
    else st.

  (* `for lrot in range(nrot)`: test, break, else one sweep.  When the fuel is
     exhausted the code carries on with the unconverged state (no error). *)
  Fixpoint jsweeps (fuel : nat) (st : jstate) : jstate :=
    match fuel with
    | O => st
    | S f => if jconverged st then st else jsweeps f (fold_left jrot pairs st)
    end.

  (* number of sweeps actually executed (diagnostics / coverage) *)
  Fixpoint jsweeps_count (fuel : nat) (st : jstate) : nat :=
    match fuel with
    | O => O
    | S f => if jconverged st then O else S (jsweeps_count f (fold_left jrot pairs st))
    end.

  (* selection sort, ascending, swapping eigenvector columns *)
  Definition jsort_step (vd : mat * vec) (j : nat) : mat * vec :=
    let '(vm, dv) := vd in
    let '(k, dtemp) :=
      fold_left
        (fun kd i => if vget dv i <? snd kd then (i, vget dv i) else kd)
        (seq (S j) (4 - S j)) (j, vget dv j) in
    if (j <? k)%nat then
      let dv := vset dv k (vget dv j) in
      let dv := vset dv j dtemp in
      let vm :=
        fold_left
          (fun vm i =>
             let t := mget vm i k in
             let vm := mset vm i k (mget vm i j) in
             mset vm i j t)
          (seq 0 4) vm in
      (vm, dv)
    else vd.

  (* quatfit.jacobi: returns (dvec, vmat) *)
  Definition jacobi (am : mat) (nrot : nat) : vec * mat :=
    let '(_, vm, dv) := jsweeps nrot (jinit am) in
    let '(vm, dv) := fold_left jsort_step (seq 0 3) (vm, dv) in
    (dv, vm).

  (* quatfit.qtrfit: quaternion = column 3 of vmat (largest eigenvalue) *)
  Definition qtrfit_quat (nrot : nat) (defs refs : list pt) : quat :=
    let '(_, vm) := jacobi (cm_rows (cmat defs refs)) nrot in
    (mget vm 0 3, mget vm 1 3, mget vm 2 3, mget vm 3 3).

  Definition qtrfit (nrot : nat) (defs refs : list pt) : quat * mat3 :=
    let q := qtrfit_quat nrot defs refs in (q, q2mat q).

  (* ---------------------------------------------------------------- *)
  (* qfit, qtransform, find_coordinates                                *)

  Definition NROT : nat := 30.

  (* quatfit.qfit on lists already cut to numpoints.  The code also computes
     rotmol/translate of the fitted set and discards the result (no effect). *)
  Definition qfit (refs defs : list pt) : pt * pt * mat3 :=
    let '(refcenter, refrel) := center refs in
    let '(defcenter, defrel) := center defs in
    let '(_, lrot) := qtrfit NROT defrel refrel in
    (refcenter, defcenter, lrot).

  (* quatfit.qtransform(1, p, refcenter, fitcenter, rotation)[0] *)
  Definition qtransform1 (p refcenter fitcenter : pt) (rotation : mat3) : pt :=
    translate1 2 refcenter (rot1 rotation (translate1 1 fitcenter p)).

  (* quatfit.find_coordinates(numpoints, refcoords, defcoords, defatomcoords).
     None = exception: ZeroDivisionError for numpoints = 0 (center), IndexError
     when a list is shorter than numpoints. *)
  Definition find_coordinates (n : nat) (refcoords defcoords : list pt) (atom : pt) : option pt :=
    if (n =? 0)%nat then None
    else if (List.length refcoords <? n)%nat || (List.length defcoords <? n)%nat then None
    else
      let '(refcenter, fitcenter, rotation) := qfit (firstn n refcoords) (firstn n defcoords) in
      Some (qtransform1 atom refcenter fitcenter rotation).

  (* ---------------------------------------------------------------- *)
  (* qchichange                                                        *)

  Definition dot3 (a b : pt) : A := px a * px b + py a * py b + pz a * pz b.
  Definition norm3 (a : pt) : A := sqrtf (dot3 a a).
  Definition psub (a b : pt) : pt := (px a - px b, py a - py b, pz a - pz b).
  Definition padd (a b : pt) : pt := (px a + px b, py a + py b, pz a + pz b).
  (* numpy.cross for 3-vectors *)
  Definition cross3 (a b : pt) : pt :=
    (py a * pz b - pz a * py b, pz a * px b - px a * pz b, px a * py b - py a * px b).
  (* utilities.normalize with the value of numpy.linalg.norm passed in *)
  Definition normalize_with (nrm : A) (a : pt) : pt := (px a / nrm, py a / nrm, pz a / nrm).
  Definition normalize (a : pt) : pt := normalize_with (norm3 a) a.

  (* the matrix `right` of qchichange for unit axis l, c = cos(radangle),
     s = sin(radangle); entry expressions in the code's order *)
  Definition chi_mat (l : pt) (c s : A) : mat3 :=
    let l0 := px l in let l1 := py l in let l2 := pz l in
    ((c + l0 * l0 * (c1 - c), l1 * l0 * (c1 - c) + l2 * s, l2 * l0 * (c1 - c) - l1 * s),
     (l0 * l1 * (c1 - c) - l2 * s, c + l1 * l1 * (c1 - c), l2 * l1 * (c1 - c) + l0 * s),
     (l0 * l2 * (c1 - c) + l1 * s, l1 * l2 * (c1 - c) - l0 * s, c + l2 * l2 * (c1 - c))).

  (* quatfit.qchichange(initcoords, refcoords, angle) with the oracle values
     nrm = numpy.linalg.norm(initcoords), c = cos, s = sin of pi*angle/180 *)
  Definition qchichange_with (nrm c s : A) (init : pt) (coords : list pt) : list pt :=
    rotmol (chi_mat (normalize_with nrm init) c s) coords.

  Definition qchichange (c s : A) (init : pt) (coords : list pt) : list pt :=
    qchichange_with (norm3 init) c s init coords.

  (* Residue.rotate_tetrahedral / Debump.set_dihedral_angle: the moved atom
     `p` is taken relative to `origin`, rotated about `axis_to - origin`, and
     translated back *)
  Definition rotate_about (c s : A) (origin axis_to p : pt) : pt :=
    padd (rot1 (chi_mat (normalize (psub axis_to origin)) c s) (psub p origin)) origin.

  (* ---------------------------------------------------------------- *)
  (* utilities.dihedral, algebraic part: (scal, chiral)                *)

  Definition dihedral_sc (p1 p2 p3 p4 : pt) : A * A :=
    let d43 := psub p4 p3 in
    let d32 := psub p3 p2 in
    let d12 := psub p1 p2 in
    let n1 := normalize (cross3 d12 d32) in
    let n2 := normalize (cross3 d43 d32) in
    (dot3 n1 n2, dot3 (cross3 n1 n2) d32).

  (* the rest of utilities.dihedral given scal, chiral and acos(scal) *)
  Definition dihedral_value (scal chiral acos_scal : A) : A :=
    let value :=
      if absf (scal + c1) <? a_small A ar then a_180 A ar
      else if absf (scal - c1) <? a_small A ar then c0
      else a_r2d A ar * acos_scal in
    if chiral <? c0 then value * ofZ (-1) else value.

End Kernels.

(* -------------------------------------------------------------------- *)
(* instance 1: IEEE-754 binary64                                         *)

Definition float_ofZ (z : Z) : float :=
  if (z <? 0)%Z then PrimFloat.opp (PrimFloat.of_uint63 (Uint63.of_Z (- z)))
  else PrimFloat.of_uint63 (Uint63.of_Z z).

Definition FArith : Arith float :=
  mkArith float
    0%float 1%float 2%float 0x1p-1%float
    0x1.19799812dea11p-40%float   (* 1e-12 *)
    0x1.ad7f29abcaf48p-24%float   (* 1e-7 *)
    0x1.ca5dcc63f1412p+5%float    (* 57.2958 *)
    0x1.68p+7%float               (* 180.0 *)
    PrimFloat.add PrimFloat.sub PrimFloat.mul PrimFloat.div
    PrimFloat.sqrt PrimFloat.abs PrimFloat.ltb PrimFloat.leb PrimFloat.eqb
    float_ofZ.

(* -------------------------------------------------------------------- *)
(* instance 2: real numbers (for proofs only; comparisons are decided by
   the classical total order of R)                                       *)

Definition Rltb (x y : R) : bool := if Rlt_dec x y then true else false.
Definition Rleb (x y : R) : bool := if Rle_dec x y then true else false.
Definition Reqb (x y : R) : bool := if Req_EM_T x y then true else false.

Definition RArith : Arith R :=
  mkArith R 0%R 1%R 2%R (/ 2)%R (/ 1000000000000)%R (/ 10000000)%R (572958 / 10000)%R 180%R
    Rplus Rminus Rmult Rdiv sqrt Rabs Rltb Rleb Reqb IZR.

(* -------------------------------------------------------------------- *)
(* printing floats exactly: "<sign><53-bit mantissa>e<exponent>", value =
   mantissa * 2^exponent; "nan", "+inf", "-inf"                          *)

Local Open Scope string_scope.

Definition show_float (f : float) : string :=
  if PrimFloat.is_nan f then "nan"
  else if PrimFloat.is_infinity f then (if PrimFloat.ltb f 0 then "-inf" else "+inf")
  else
    let sg := if PrimFloat.get_sign f then "-" else "+" in
    let '(m, e) := PrimFloat.frshiftexp (PrimFloat.abs f) in
    sg ++ Z_to_string (Uint63.to_Z (PrimFloat.normfr_mantissa m))
       ++ "e" ++ Z_to_string (Uint63.to_Z e - 2101 - 53)%Z.

Fixpoint show_floats (l : list float) : string :=
  match l with
  | [] => ""
  | [x] => show_float x
  | x :: t => show_float x ++ " " ++ show_floats t
  end.

Definition fpt : Type := float * float * float.
Definition pt_floats (p : fpt) : list float := [fst (fst p); snd (fst p); snd p].
Definition pts_floats (l : list fpt) : list float := flat_map pt_floats l.
Definition mat3_floats (m : fpt * fpt * fpt) : list float :=
  (pt_floats (fst (fst m)) ++ pt_floats (snd (fst m)) ++ pt_floats (snd m))%list.
Definition quat_floats (q : float * float * float * float) : list float :=
  [fst (fst (fst q)); snd (fst (fst q)); snd (fst q); snd q].
Definition cm_floats (c : cm (A := float)) : list float :=
  [c00 c; c01 c; c02 c; c03 c; c11 c; c12 c; c13 c; c22 c; c23 c; c33 c].

(* ---- entry points used by the correspondence harness (float instance) ---- *)

Definition F_center (l : list fpt) : string :=
  let '(c, rel) := center FArith l in show_floats (pt_floats c ++ pts_floats rel)%list.

Definition F_translate (mode : Z) (c : fpt) (l : list fpt) : string :=
  show_floats (pts_floats (translate FArith mode c l)).

Definition F_rotmol (m : fpt * fpt * fpt) (l : list fpt) : string :=
  show_floats (pts_floats (rotmol FArith m l)).

Definition F_q2mat (q : float * float * float * float) : string :=
  show_floats (mat3_floats (q2mat FArith q)).

Definition F_cmat (defs refs : list fpt) : string :=
  show_floats (cm_floats (cmat FArith defs refs)).

(* jacobi on an arbitrary 4x4 list-of-lists: dvec then vmat rows, then the
   number of sweeps executed *)
Definition F_jacobi (am : list (list float)) (nrot : nat) : string :=
  let '(dv, vm) := jacobi FArith am nrot in
  show_floats (dv ++ List.concat vm)%list ++ " #" ++
  Z_to_string (Z.of_nat (jsweeps_count FArith nrot (jinit FArith am))).

(* qtrfit: quaternion then rotation matrix *)
Definition F_qtrfit (nrot : nat) (defs refs : list fpt) : string :=
  let '(q, m) := qtrfit FArith nrot defs refs in
  show_floats (quat_floats q ++ mat3_floats m)%list.

Definition F_find_coordinates (n : nat) (refs defs : list fpt) (atom : fpt) : string :=
  match find_coordinates FArith n refs defs atom with
  | None => "EXC"
  | Some p => show_floats (pt_floats p)
  end.

Definition F_qchichange (nrm c s : float) (init : fpt) (coords : list fpt) : string :=
  show_floats (pts_floats (qchichange_with FArith nrm c s init coords)).

(* the model's own norm (sqrt of the left-to-right sum of squares) *)
Definition F_norm3 (a : fpt) : string := show_float (norm3 FArith a).

Definition F_dihedral_sc (p1 p2 p3 p4 : fpt) : string :=
  let '(sc, ch) := dihedral_sc FArith p1 p2 p3 p4 in show_floats [sc; ch].

Definition F_dihedral_value (scal chiral acos_scal : float) : string :=
  show_float (dihedral_value FArith scal chiral acos_scal).

Definition F_constants : string :=
  show_floats [a_tol float FArith; a_small float FArith; a_r2d float FArith; a_half float FArith].
