(* Model of pdb2pqr.ligand.mol2.Mol2Molecule.read (C16): how the MOL2 TEXT
   becomes the atoms and bonds that Model/Peoe.v takes as input.
   Executable definitions only; proofs are in Proofs/Mol2Read.v.

   Code modelled (pdb2pqr/ligand/mol2.py as it is):
     read          = parse_atoms; parse_bonds on ONE line iterator
     parse_atoms   = skip lines until one CONTAINS "@<TRIPOS>ATOM"; then per line:
                     strip; blank -> continue; contains "@<TRIPOS>BOND" -> break;
                     words = split(); < 8 words -> ValueError; name = words[1];
                     type = words[5] normalised (Peoe.norm_type; > 2 parts ->
                     ValueError); int(words[0]), words[7][:4], int(words[6]),
                     float(words[2..4]) (ValueError); `if len(line) > 8:` (tests
                     CHARACTERS, always true here) float(words[8]): IndexError
                     for an 8-word record, ValueError for a non-number;
                     a name already in the dict: first atom kept, name recorded,
                     KeyError after the section.
     parse_bonds   = atom_names = list(atoms.keys()); per line: strip; blank ->
                     continue; contains "@<TRIPOS>SUBSTRUCTURE" -> break; < 4
                     words -> ValueError; words[3] in 1 2 3 ar, am du un nc ->
                     NotImplementedError, else ValueError; int(words[0..2]);
                     atom_names[id - 1] with PYTHON indexing: id 0 is the last
                     atom, id -k the (k+1)-th from the end, outside -> IndexError.
   A line iterator that is exhausted simply ends the loops: a file without an
   ATOM section gives the empty molecule; a BOND section placed before the ATOM
   section is skipped with the header (no bonds at all).
   Not modelled: set_torsions / set_rings, which parse_bonds calls at the end
   (they fill Mol2Atom.torsions / num_rings, which assign_parameters never
   reads; assumed not to raise - ring perception recurses once per atom of a
   path, so a chain of ~1000 atoms hits Python's recursion limit).

   Oracles: [float_ok] = "float(word) does not raise" is a Section variable
   (the executable instance [py_float_ok] is the ASCII grammar of
   Model/PqrFormat.v).  int() is [PqrFormat.py_int] (sign, digits, single
   underscores).  Domain: ASCII text (str.split/strip whitespace = Lib.Strings.is_ws).
   [charge_optional] = false is the code AS IT IS (`len(line) > 8`); true is the
   code with the one-word repair of finding C16-F5 (`len(words) > 8`). *)
From Coq Require Import String Ascii List Arith NArith ZArith Bool.
From PV Require Import Lib.Strings Lib.Decimal Model.Peoe.
From PV Require Model.PqrFormat.
Import ListNotations.
Local Open Scope string_scope.

Inductive exn := ValueError | IndexError | KeyError | NotImplementedError.

Inductive result (A : Type) : Type :=
| Ok (a : A)
| Raise (e : exn).
Arguments Ok {A} a.
Arguments Raise {A} e.

(* `p in s` for strings *)
Fixpoint contains (p s : string) {struct s} : bool :=
  prefix_of p s || match s with EmptyString => false | String _ r => contains p r end.

(* iteration over a text-mode file (universal newlines): lines end at "\n",
   "\r\n" or "\r".  Terminators are dropped here and a trailing empty piece may
   appear: both are invisible to the reader (every line is strip()ped or only
   searched for a marker, and blank lines are skipped everywhere). *)
Definition is_lf (c : ascii) : bool := (N_of_ascii c =? 10)%N.
Definition is_cr (c : ascii) : bool := (N_of_ascii c =? 13)%N.

Fixpoint lines_of (s : string) : string * list string :=
  match s with
  | EmptyString => (EmptyString, [])
  | String c r =>
      let (h, t) := lines_of r in
      if is_lf c then (EmptyString, h :: t)
      else if is_cr c then
        match r with
        | String c2 _ => if is_lf c2 then (h, t) else (EmptyString, h :: t)
        | EmptyString => (EmptyString, h :: t)
        end
      else (String c h, t)
  end.

Definition text_lines (s : string) : list string :=
  let (h, t) := lines_of s in h :: t.

(* ---- what read() builds --------------------------------------------------- *)

Record ratom := mkratom {
  ra_serial : Z;                (* atom.serial = int(words[0]); never used to resolve bonds *)
  ra_name : string;             (* words[1] *)
  ra_x : string;                (* words[2..4], kept as text (float() is an oracle) *)
  ra_y : string;
  ra_z : string;
  ra_type : string;             (* words[5] normalised *)
  ra_resseq : Z;                (* int(words[6]) *)
  ra_resname : string;          (* words[7][:4] *)
  ra_charge : option string     (* words[8] as text; None = mol2charge stays None *)
}.

Record rbond := mkrbond {
  rb_id : Z;                    (* int(words[0]) *)
  rb_a1 : nat;                  (* position of atom1 in the atom list, 0-based *)
  rb_a2 : nat;
  rb_type : btype
}.

Record molecule := mkmolecule {
  ml_atoms : list ratom;        (* self.atoms (OrderedDict) in insertion order *)
  ml_bonds : list rbond         (* self.bonds in file order *)
}.

(* the input record of Peoe.assign_parameters: types by position, bonds by
   position with their type, file order *)
Definition to_mol (m : molecule) : mol :=
  mkmol (map ra_type (ml_atoms m))
        (map (fun b => (rb_a1 b, rb_a2 b, rb_type b)) (ml_bonds m)).

(* ---- record parsers -------------------------------------------------------- *)

Definition marker_atom : string := "@<TRIPOS>ATOM".
Definition marker_bond : string := "@<TRIPOS>BOND".
Definition marker_subst : string := "@<TRIPOS>SUBSTRUCTURE".

(* parse_bonds: the bond-type word *)
Definition bond_word (w : string) : result btype :=
  if w =? "1" then Ok Single
  else if w =? "2" then Ok Double
  else if w =? "3" then Ok Triple
  else if w =? "am" then Raise NotImplementedError
  else if w =? "ar" then Ok Aromatic
  else if (w =? "du") || (w =? "un") || (w =? "nc") then Raise NotImplementedError
  else Raise ValueError.

(* a_list[k] for a list of length n, Python indexing; None = IndexError *)
Definition py_index (n : nat) (k : Z) : option nat :=
  if ((0 <=? k) && (k <? Z.of_nat n))%Z then Some (Z.to_nat k)
  else if ((- Z.of_nat n <=? k) && (k <? 0))%Z then Some (Z.to_nat (Z.of_nat n + k))
  else None.

(* one BOND record, [n] = number of atoms read *)
Definition parse_bond_words (n : nat) (ws : list string) : result rbond :=
  match ws with
  | w0 :: w1 :: w2 :: w3 :: _ =>
      match bond_word w3 with
      | Raise e => Raise e
      | Ok bt =>
          match PqrFormat.py_int w0, PqrFormat.py_int w1, PqrFormat.py_int w2 with
          | Some bid, Some i1, Some i2 =>
              match py_index n (i1 - 1) with
              | None => Raise IndexError
              | Some a1 =>
                  match py_index n (i2 - 1) with
                  | None => Raise IndexError
                  | Some a2 => Ok (mkrbond bid a1 a2 bt)
                  end
              end
          | _, _, _ => Raise ValueError
          end
      end
  | _ => Raise ValueError                      (* "Bond line too short" *)
  end.

Section Reader.
  Context (float_ok : string -> bool).         (* float(word) does not raise *)
  Context (charge_optional : bool).            (* false: `len(line) > 8` (as coded) *)

  (* one ATOM record *)
  Definition parse_atom_words (ws : list string) : result ratom :=
    match ws with
    | w0 :: w1 :: w2 :: w3 :: w4 :: w5 :: w6 :: w7 :: rest =>
        match norm_type w5 with
        | None => Raise ValueError               (* "Invalid atom type" *)
        | Some ty =>
            match PqrFormat.py_int w0, PqrFormat.py_int w6 with
            | Some serial, Some resseq =>
                if float_ok w2 && float_ok w3 && float_ok w4 then
                  match rest with
                  | [] =>
                      if charge_optional
                      then Ok (mkratom serial w1 w2 w3 w4 ty resseq (take 4 w7) None)
                      else Raise IndexError      (* words[8] on an 8-word record *)
                  | w8 :: _ =>
                      if float_ok w8
                      then Ok (mkratom serial w1 w2 w3 w4 ty resseq (take 4 w7) (Some w8))
                      else Raise ValueError      (* only TypeError is caught *)
                  end
                else Raise ValueError
            | _, _ => Raise ValueError
            end
        end
    | _ => Raise ValueError                      (* "Bad entry in MOL2 file" *)
    end.

  Definition has_name (nm : string) (acc : list ratom) : bool :=
    existsb (fun a => ra_name a =? nm) acc.

  Definition finish_atoms (acc : list ratom) (dup : bool) : result (list ratom) :=
    if dup then Raise KeyError else Ok acc.

  (* the second loop of parse_atoms: (outcome, lines left for parse_bonds) *)
  Fixpoint atoms_loop (lines : list string) (acc : list ratom) (dup : bool)
    : result (list ratom) * list string :=
    match lines with
    | [] => (finish_atoms acc dup, [])
    | l :: rest =>
        let s := strip l in
        if is_empty s then atoms_loop rest acc dup
        else if contains marker_bond s then (finish_atoms acc dup, rest)
        else
          match parse_atom_words (tokens s) with
          | Raise e => (Raise e, [])
          | Ok a =>
              if has_name (ra_name a) acc then atoms_loop rest acc true
              else atoms_loop rest (acc ++ [a])%list dup
          end
    end.

  (* the loop of parse_bonds *)
  Fixpoint bonds_loop (n : nat) (lines : list string) (acc : list rbond) : result (list rbond) :=
    match lines with
    | [] => Ok acc
    | l :: rest =>
        let s := strip l in
        if is_empty s then bonds_loop n rest acc
        else if contains marker_subst s then Ok acc
        else
          match parse_bond_words n (tokens s) with
          | Raise e => Raise e
          | Ok b => bonds_loop n rest (acc ++ [b])%list
          end
    end.

  (* the first loop of parse_atoms: everything up to and including the first
     line that contains the ATOM marker is dropped *)
  Fixpoint skip_to_atoms (lines : list string) : list string :=
    match lines with
    | [] => []
    | l :: rest => if contains marker_atom l then rest else skip_to_atoms rest
    end.

  (* Mol2Molecule.read on the lines of the file *)
  Definition mol_of_text (lines : list string) : result molecule :=
    match atoms_loop (skip_to_atoms lines) [] false with
    | (Raise e, _) => Raise e
    | (Ok atoms, rest) =>
        match bonds_loop (List.length atoms) rest [] with
        | Raise e => Raise e
        | Ok bonds => Ok (mkmolecule atoms bonds)
        end
    end.

  Definition mol_of_string (text : string) : result molecule := mol_of_text (text_lines text).
End Reader.

(* ---- an independent writer: the canonical Tripos rendering ----------------- *)

Definition btype_word (t : btype) : string :=
  match t with Single => "1" | Double => "2" | Triple => "3" | Aromatic => "ar" end.

(* atom_id atom_name x y z atom_type subst_id subst_name [charge] *)
Definition atom_line (a : ratom) : string :=
  join " " ([Z_to_string (ra_serial a); ra_name a; ra_x a; ra_y a; ra_z a; ra_type a;
             Z_to_string (ra_resseq a); ra_resname a] ++
            match ra_charge a with Some c => [c] | None => [] end)%list.

(* bond_id origin_atom_id target_atom_id bond_type; atom ids = 1-based positions *)
Definition bond_line (b : rbond) : string :=
  join " " [Z_to_string (rb_id b); Z_to_string (Z.of_nat (S (rb_a1 b)));
            Z_to_string (Z.of_nat (S (rb_a2 b))); btype_word (rb_type b)].

(* any header (MOLECULE record, comments ...) and any trailer may surround the
   two sections *)
Definition mol2_text_with (header trailer : list string) (m : molecule) : list string :=
  (header ++ [marker_atom] ++ map atom_line (ml_atoms m) ++ [marker_bond] ++
   map bond_line (ml_bonds m) ++ [marker_subst] ++ trailer)%list.

Definition std_header (m : molecule) : list string :=
  ["@<TRIPOS>MOLECULE"; "ligand";
   join " " [Z_to_string (Z.of_nat (List.length (ml_atoms m)));
             Z_to_string (Z.of_nat (List.length (ml_bonds m))); "1"; "0"; "0"];
   "SMALL"; "USER_CHARGES"; ""].

Definition std_trailer : list string := ["1 LIG 1 TEMP 0 **** **** 0 ROOT"].

Definition mol2_text (m : molecule) : list string := mol2_text_with (std_header m) std_trailer m.

(* ---- the domain of the round trip ------------------------------------------ *)

Definition is_at (c : ascii) : bool := Ascii.eqb "@" c.

(* a field of a record: one split() word that cannot be taken for a marker *)
Definition good_word (w : string) : bool :=
  negb (is_empty w) && negb (any_char is_ws w) && negb (any_char is_at w).

Definition norm_fixed (t : string) : bool :=
  match norm_type t with Some t' => t' =? t | None => false end.

Section Domain.
  Context (float_ok : string -> bool) (charge_optional : bool).

  Definition wf_atom (a : ratom) : bool :=
    good_word (ra_name a) &&
    good_word (ra_x a) && good_word (ra_y a) && good_word (ra_z a) &&
    float_ok (ra_x a) && float_ok (ra_y a) && float_ok (ra_z a) &&
    good_word (ra_type a) && norm_fixed (ra_type a) &&
    good_word (ra_resname a) && (String.length (ra_resname a) <=? 4)%nat &&
    match ra_charge a with
    | Some c => good_word c && float_ok c
    | None => charge_optional
    end.

  Definition wf_bond (n : nat) (b : rbond) : bool := (rb_a1 b <? n)%nat && (rb_a2 b <? n)%nat.

  Definition wf_molecule (m : molecule) : Prop :=
    forallb wf_atom (ml_atoms m) = true /\
    NoDup (map ra_name (ml_atoms m)) /\
    forallb (wf_bond (List.length (ml_atoms m))) (ml_bonds m) = true.
End Domain.

(* ---- reordering and renaming (the molecule-level operations whose canonical
        texts the theorems read back) ---------------------------------------- *)

Definition dummy_atom : ratom := mkratom 0 "" "" "" "" "" 0 "" None.

(* the atom at position i moves to position sigma i (tau = inverse); ATOM ids
   are renumbered 1..n, bond atom ids follow their atoms; BOND lines keep
   their order *)
Definition permute (m : molecule) (sigma tau : nat -> nat) : molecule :=
  mkmolecule
    (map (fun k => let a := nth (tau k) (ml_atoms m) dummy_atom in
                   mkratom (Z.of_nat (S k)) (ra_name a) (ra_x a) (ra_y a) (ra_z a) (ra_type a)
                           (ra_resseq a) (ra_resname a) (ra_charge a))
         (seq 0 (List.length (ml_atoms m))))
    (map (fun b => mkrbond (rb_id b) (sigma (rb_a1 b)) (sigma (rb_a2 b)) (rb_type b)) (ml_bonds m)).

Definition set_name (a : ratom) (nm : string) : ratom :=
  mkratom (ra_serial a) nm (ra_x a) (ra_y a) (ra_z a) (ra_type a) (ra_resseq a) (ra_resname a) (ra_charge a).

(* atom k gets the k-th of [names] *)
Definition rename (m : molecule) (names : list string) : molecule :=
  mkmolecule (map (fun p => set_name (fst p) (snd p)) (combine (ml_atoms m) names)) (ml_bonds m).

(* ---- executable instance and rendering for the harness --------------------- *)

Definition py_float_ok (w : string) : bool :=
  match PqrFormat.py_float w with PqrFormat.FNot => false | _ => true end.

Definition exn_name (e : exn) : string :=
  match e with
  | ValueError => "ValueError" | IndexError => "IndexError"
  | KeyError => "KeyError" | NotImplementedError => "NotImplementedError"
  end.

Definition nat_str (n : nat) : string := Z_to_string (Z.of_nat n).

(* "OK natoms nbonds" + 9 words per atom + 4 per bond, blank separated (no
   field contains a blank; "~" marks a missing charge - not a float spelling) *)
Definition show_molecule (m : molecule) : string :=
  join " " (["OK"; nat_str (List.length (ml_atoms m)); nat_str (List.length (ml_bonds m))] ++
            flat_map (fun a => [Z_to_string (ra_serial a); ra_name a; ra_x a; ra_y a; ra_z a; ra_type a;
                                Z_to_string (ra_resseq a); ra_resname a;
                                match ra_charge a with Some c => c | None => "~" end]) (ml_atoms m) ++
            flat_map (fun b => [Z_to_string (rb_id b); nat_str (rb_a1 b); nat_str (rb_a2 b);
                                btype_word (rb_type b)]) (ml_bonds m))%list.

Definition show_result (r : result molecule) : string :=
  match r with Ok m => show_molecule m | Raise e => "RAISE " ++ exn_name e end.

(* text -> parsed molecule (code as it is / with the C16-F5 repair) *)
Definition run_read (charge_opt : bool) (text : string) : string :=
  show_result (mol_of_string py_float_ok charge_opt text).

(* text -> charges: the reader composed with Peoe.assign_parameters (binary64) *)
Definition run_text_F (charge_opt : bool) (text : string) : string :=
  match mol_of_string py_float_ok charge_opt text with
  | Raise e => "RAISE " ++ exn_name e
  | Ok m => show_params show_F (assign_parameters FA (to_mol m))
  end.

(* the canonical rendering, for comparison with the harness's own writer *)
Definition run_render (charge_opt : bool) (text : string) : string :=
  match mol_of_string py_float_ok charge_opt text with
  | Raise e => "RAISE " ++ exn_name e
  | Ok m => join nl (mol2_text m)
  end.
