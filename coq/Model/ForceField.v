(* Model of pdb2pqr/forcefield.py: loading a .DAT parameter file, the
   cumulative .names rules (ForcefieldHandler.endElement), parameter lookup
   (Forcefield.get_params) and Biomolecule.apply_force_field (C01).

   Names are interned to [positive] ids by the generator. Charges and radii
   are exact decimals (value * 10^6) read from the file TEXT.  Regular
   expression matching is done by the generator with Python's [re] over the
   closed universe of names (DAT residue names + definition names) and enters
   here as lists of ids; the cumulative semantics is Gallina. *)
From Coq Require Import ZArith List Bool PArith.
Import ListNotations.

Definition id := positive.

(* a ForcefieldAtom: charge, radius, and the DAT row it was created from *)
Record entry := mkentry { e_q : Z; e_r : Z; e_nres : id; e_natom : id }.

Definition entry_eqb (a b : entry) : bool :=
  Z.eqb (e_q a) (e_q b) && Z.eqb (e_r a) (e_r b) &&
  Pos.eqb (e_nres a) (e_nres b) && Pos.eqb (e_natom a) (e_natom b).

(* python dict with insertion order: d[k] = v keeps the position of k *)
Section Dict.
  Context {V : Type}.
  Fixpoint dget (d : list (id * V)) (k : id) : option V :=
    match d with
    | [] => None
    | (k', v) :: r => if Pos.eqb k k' then Some v else dget r k
    end.
  Fixpoint dset (d : list (id * V)) (k : id) (v : V) : list (id * V) :=
    match d with
    | [] => [(k, v)]
    | (k', v') :: r => if Pos.eqb k k' then (k, v) :: r else (k', v') :: dset r k v
    end.
  Definition dhas (d : list (id * V)) (k : id) : bool :=
    match dget d k with Some _ => true | None => false end.
End Dict.

Definition atoms := list (id * entry).       (* ForcefieldResidue.atoms *)
Definition ffmap := list (id * atoms).        (* Forcefield.map *)

(* one data row of the DAT file: resname atomname charge radius *)
Record row := mkrow { w_res : id; w_atom : id; w_q : Z; w_r : Z }.

Definition entry_of_row (w : row) : entry := mkentry (w_q w) (w_r w) (w_res w) (w_atom w).

(* Forcefield.__init__, first part: later duplicate rows overwrite *)
Definition load_row (m : ffmap) (w : row) : ffmap :=
  let ats := match dget m (w_res w) with Some a => a | None => [] end in
  dset m (w_res w) (dset ats (w_atom w) (entry_of_row w)).

Definition load_dat (rows : list row) : ffmap := fold_left load_row rows [].

(* ForcefieldHandler.update_map for residues: create the target if absent,
   then add/overwrite every atom of the source.  None = KeyError. *)
Definition copy_residue (m : ffmap) (toname fromname : id) : option ffmap :=
  match dget m fromname with
  | None => None
  | Some src =>
      let tgt := match dget m toname with Some a => a | None => [] end in
      Some (dset m toname (fold_left (fun t p => dset t (fst p) (snd p)) src tgt))
  end.

(* update_map for atoms inside one residue: atoms[new] = atoms[old] *)
Definition alias_atoms (ats : atoms) (al : list (id * option id)) : atoms :=
  fold_left (fun a p =>
               match snd p with
               | None => a
               | Some old => match dget a old with Some e => dset a (fst p) e | None => a end
               end) al ats.

(* atommap[newatomname] = oldatomname : a dict, later duplicates replace the
   value but keep the position *)
Definition atommap (al : list (id * option id)) : list (id * option id) :=
  fold_left (fun d p => dset d (fst p) (snd p)) al [].

(* one <residue> section of the .names file *)
Record rule := mkrule {
  r_has_old : bool;              (* a <useresname> was given *)
  r_group : bool;                (* it contains "$group" *)
  r_copies : list (id * id);     (* (toname, fromname) for every REFERENCE name matching the
                                    regex, in reference order; fromname after $group substitution *)
  r_keys : list id;              (* universe names matching the regex (re.match(regex + "$")) *)
  r_alias : list (id * option id) (* <atom> children in document order: (name, useatomname) *)
}.

Fixpoint do_copies (group : bool) (m : ffmap) (cs : list (id * id)) : option ffmap :=
  match cs with
  | [] => Some m
  | (t, f) :: r =>
      if group && negb (dhas m f) then do_copies group m r
      else match copy_residue m t f with
           | None => None
           | Some m' => do_copies group m' r
           end
  end.

Definition mem_id (k : id) (l : list id) : bool := existsb (Pos.eqb k) l.

(* apply the atom conversions to every CURRENT map key matching the regex *)
Definition do_alias (m : ffmap) (keys : list id) (al : list (id * option id)) : ffmap :=
  map (fun kv => if mem_id (fst kv) keys then (fst kv, alias_atoms (snd kv) al) else kv) m.

Definition apply_rule (m : ffmap) (r : rule) : option ffmap :=
  match (if r_has_old r then do_copies (r_group r) m (r_copies r) else Some m) with
  | None => None
  | Some m1 =>
      let am := atommap (r_alias r) in
      match am with
      | [] => Some m1
      | _ => Some (do_alias m1 (r_keys r) am)
      end
  end.

Fixpoint apply_rules (m : ffmap) (rs : list rule) : option ffmap :=
  match rs with
  | [] => Some m
  | r :: rest => match apply_rule m r with None => None | Some m' => apply_rules m' rest end
  end.

Definition build (rows : list row) (rules : list rule) : option ffmap :=
  apply_rules (load_dat rows) rules.

(* Forcefield.get_params(resname, atomname) *)
Definition lookup (m : ffmap) (res atom : id) : option entry :=
  match dget m res with
  | None => None
  | Some ats => dget ats atom
  end.

(* ---- Biomolecule.apply_force_field ------------------------------------- *)

(* a residue as the assignment loop sees it: the name used for lookup
   (ffname for Amino/WAT/Nucleic, name otherwise) and its atoms in order;
   [A] is whatever identifies an atom instance *)
Section Assign.
  Context {A : Type}.
  Definition res := (id * list (A * id))%type.

  Definition assign_res (m : ffmap) (r : res) : list (A * entry) * list A :=
    fold_right (fun an acc =>
                  match lookup m (fst r) (snd an) with
                  | Some e => ((fst an, e) :: fst acc, snd acc)
                  | None => (fst acc, fst an :: snd acc)
                  end) ([], []) (snd r).

  (* (hitlist with the parameters written into the atom, misslist) *)
  Definition assign (m : ffmap) (rs : list res) : list (A * entry) * list A :=
    fold_right (fun r acc =>
                  let hm := assign_res m r in
                  (fst hm ++ fst acc, snd hm ++ snd acc)) ([], []) rs.
End Assign.

(* ---- comparison with a dump of the implementation's map ----------------- *)

(* flat dump: (resname, atomname, charge, radius, native res, native atom) *)
Definition flat := (id * id * entry)%type.

Definition flatten (m : ffmap) : list flat :=
  flat_map (fun kv => map (fun ae => (fst kv, fst ae, snd ae)) (snd kv)) m.

Definition flat_in (m : ffmap) (f : flat) : bool :=
  let '(r, a, e) := f in
  match lookup m r a with Some e' => entry_eqb e e' | None => false end.

(* same key set and same entries: every dumped entry is in the model map and
   the model map has exactly as many entries and residues *)
Definition same_map (m : ffmap) (dump : list flat) (nres : nat) : bool :=
  forallb (flat_in m) dump && Nat.eqb (length (flatten m)) (length dump) && Nat.eqb (length m) nres.

Definition check_build (rows : list row) (rules : list rule) (dump : list flat) (nres : nat) : bool :=
  match build rows rules with
  | None => false
  | Some m => same_map m dump nres
  end.
