(* Model of the placement primitives used when pdb2pqr ADDS an atom (C05), on
   top of Model/Quatfit.v (find_coordinates, rotate_about) and Model/Moves.v
   (moveable set):

   - [unit_place]: Optimize.make_atom_with_no_bonds / Water.finalize with no
     bonds:  newcoords[i] = vec[i] / dist + atom.coords[i];
   - [beyond]: the bond-graph component beyond the pivot bond b - c (what a
     torsion change about b - c must move, over ALL atoms incl. hydrogens);
   - exact-subtree / hydrogens-follow-parents checks of a selection;
   - integer template geometry (coordinates in 1e-3 A, as printed in AA.xml,
     NA.xml, PATCHES.xml) for the generated table Generated/C05Table.v.

   Definitions only (no proofs). *)
From Coq Require Import List ZArith PArith Bool String.
From Coq Require Import PrimFloat.
From PV Require Import Model.ForceField Model.Topology Model.Moves Model.Quatfit.
Import ListNotations.

(* ------------------------------------------------------------------ *)
(* arithmetic-generic: the 1 A placement along a direction              *)

Section Unit.
  Context {A : Type} (ar : Arith A).

  (* vec = to_ - from_ ; dist = the norm handed in (numpy.linalg.norm oracle for
     the float instance); result = vec / dist + o, component by component *)
  Definition unit_place_with (dist : A) (o from_ to_ : pt (A := A)) : pt (A := A) :=
    let v := psub ar to_ from_ in
    (a_add A ar (a_div A ar (px v) dist) (px o),
     a_add A ar (a_div A ar (py v) dist) (py o),
     a_add A ar (a_div A ar (pz v) dist) (pz o)).

  Definition unit_place (o from_ to_ : pt (A := A)) : pt (A := A) :=
    unit_place_with (norm3 ar (psub ar to_ from_)) o from_ to_.
End Unit.

Definition F_unit_place (dist : float) (o from_ to_ : fpt) : string :=
  show_floats (pt_floats (unit_place_with FArith dist o from_ to_)).

(* Residue.rotate_tetrahedral on ONE bonded atom h of atom2 (float instance):
   movecoords = h - atom1; qchichange(atom2 - atom1, [movecoords], angle);
   h' = new + atom1.  nrm, c, s are the numpy-norm / libm oracle values. *)
Definition F_rotate_tetrahedral (nrm c s : float) (a1 a2 h : fpt) : string :=
  match qchichange_with FArith nrm c s (psub FArith a2 a1) [psub FArith h a1] with
  | [v] => show_floats (pt_floats (padd FArith v a1))
  | _ => "EXC"%string
  end.

(* ------------------------------------------------------------------ *)
(* Amino.rebuild_tetrahedral with numbonds = 3 (two of the three hydrogens
   exist) and Optimize.get_position_with_three_bonds: the first existing atom
   is rotated by 120 degrees (n1) and again (n2); n1 is taken unless the
   second existing atom sits there:  `distance(h1, n1) > 0.1`               *)

Section Choice.
  Context {A : Type} (ar : Arith A).

  (* d = the value of util.distance(hatoms[1].coords, newcoords1) *)
  Definition choose3_with (thr d : A) (n1 n2 : pt (A := A)) : pt (A := A) :=
    if a_ltb A ar thr d then n1 else n2.

  Definition choose3 (thr : A) (n1 n2 h1 : pt (A := A)) : pt (A := A) :=
    choose3_with thr (norm3 ar (psub ar h1 n1)) n1 n2.

  (* the whole step on points: h0 rotated about o -> a by (c, s) once and twice *)
  Definition rebuild3 (thr c s : A) (o a h0 h1 : pt (A := A)) : pt (A := A) :=
    let n1 := rotate_about ar c s o a h0 in
    let n2 := rotate_about ar c s o a n1 in
    choose3 thr n1 n2 h1.
End Choice.

(* float instance with the oracle values: nrm = numpy norm of a2 - a1, c, s = libm
   cos/sin of 120 degrees, d = numpy distance of the second hydrogen to n1 *)
Definition F_rebuild3 (nrm c s d : float) (a1 a2 h0 : fpt) : string :=
  let rot := fun h : fpt =>
    match qchichange_with FArith nrm c s (psub FArith a2 a1) [psub FArith h a1] with
    | [v] => padd FArith v a1
    | _ => h
    end in
  let n1 := rot h0 in
  let n2 := rot n1 in
  show_floats (pt_floats (choose3_with FArith 0x1.999999999999ap-4%float d n1 n2)).

(* ------------------------------------------------------------------ *)
(* which template neighbours the n-point fit is given (name level):
   DefinitionResidue.get_nearest_bonds + the selection loop of
   Biomolecule.add_hydrogens / repair_heavy                              *)

Definition add_new1 (acc : list id) (b : id) : list id := if mem b acc then acc else acc ++ [b].

(* get_nearest_bonds(x): bonded atoms; then, for every bonded atom, its bonded atoms that are
   new and not x (these are also remembered as level 2); then, for every level-2 atom, its
   bonded atoms that are new (x itself is NOT excluded at this level, as in the code) *)
Definition nearest_bonds (g : graph) (x : id) : list id :=
  let l1 := fold_left add_new1 (nbrs g x) [] in
  let '(b2, lev2) :=
    fold_left (fun st b1 =>
                 fold_left (fun st2 v => let '(bs, l2) := st2 in
                                         if mem v bs || Pos.eqb v x then st2 else (bs ++ [v], l2 ++ [v]))
                           (nbrs g b1) st)
              (nbrs g x) (l1, []) in
  fold_left (fun bs l2 => fold_left add_new1 (nbrs g l2) bs) lev2 b2.

(* the loop `for bond in bondlist: atom = ...; if atom is None: continue; append; if len == 3: break` *)
Fixpoint take_present (present : id -> bool) (n : nat) (l : list id) : list id :=
  match n, l with
  | O, _ => []
  | _, [] => []
  | S n', b :: t => if present b then b :: take_present present n' t else take_present present n t
  end.

(* presence as the code sees it: N+1 / C-1 through the peptide pointers (None at a chain break or
   terminus), every other name through residue.get_atom *)
Definition present_in (np1 cm1 : id) (has_pn has_pc : bool) (atoms : list id) (b : id) : bool :=
  if Pos.eqb b np1 then has_pn else if Pos.eqb b cm1 then has_pc else mem b atoms.

(* Some [three names] = the fit is made with these; None = fewer than three present
   ("Couldn't rebuild" in add_hydrogens, retry later in repair_heavy) *)
Definition fit_names (g : graph) (present : id -> bool) (x : id) : option (list id) :=
  let l := take_present present 3 (nearest_bonds g x) in
  if Nat.eqb (List.length l) 3 then Some l else None.

(* ------------------------------------------------------------------ *)
(* the component beyond the pivot bond                                  *)

(* remove the bond b - c from the graph *)
Definition cut_bond (g : graph) (b c : id) : graph :=
  map (fun p =>
         if Pos.eqb (fst p) c then (fst p, filter (fun v => negb (Pos.eqb v b)) (snd p))
         else if Pos.eqb (fst p) b then (fst p, filter (fun v => negb (Pos.eqb v c)) (snd p))
         else p) g.

(* atoms connected to c once the bond b - c is cut, c itself excluded, in
   residue atom order *)
Definition beyond (g : graph) (b c : id) : list id :=
  let g' := cut_bond g b c in
  let s := reach g' (fun _ => true) (S (List.length g)) [c] [c] in
  filter (fun a => mem a s && negb (Pos.eqb a c)) (nodes g).

Definition subset (l1 l2 : list id) : bool := forallb (fun a => mem a l2) l1.
Definition same_set (l1 l2 : list id) : bool := subset l1 l2 && subset l2 l1.

(* "hydrogens move only with their parents": every selected hydrogen has all
   its bonded atoms selected too, or bonded to the pivot itself *)
Definition hyd_follow (hyd : list id) (g : graph) (c : id) (M : list id) : bool :=
  forallb (fun h => negb (mem h hyd) ||
                    forallb (fun p => mem p M || Pos.eqb p c) (nbrs g h)) M.

(* ... and no hydrogen is left behind: a hydrogen bonded to a selected atom or
   to the pivot is selected *)
Definition hyd_not_left (hyd : list id) (g : graph) (b c : id) (M : list id) : bool :=
  forallb (fun h => negb (mem h hyd) || mem h M || Pos.eqb h b ||
                    negb (existsb (fun p => mem p M || Pos.eqb p c) (nbrs g h))) (nodes g).

(* the full all-atom check of one selection M for the dihedral (_, b, c, _) *)
Definition exact_subtree (hyd : list id) (g : graph) (b c : id) (M : list id) : bool :=
  same_set M (beyond g b c) && negb (mem b (beyond g b c)) && negb (mem c M) &&
  hyd_follow hyd g c M && hyd_not_left hyd g b c M.

Definition exact_dihedral (hyd : list id) (nm : names) (nt ct : bool) (g : graph)
           (dh : id * id * id * id) : bool :=
  let '(_, b, c, _) := dh in
  match ranks nm nt ct g with
  | None => false
  | Some rk => exact_subtree hyd g b c (moveable g rk c)
  end.

(* the pre-fix (rank-only) selection: does it move a hydrogen without its parent? *)
Definition rank_moves_orphan_h (hyd : list id) (nm : names) (nt ct : bool) (g : graph)
           (dh : id * id * id * id) : bool :=
  let '(_, b, c, _) := dh in
  match ranks nm nt ct g with
  | None => false
  | Some rk => negb (hyd_follow hyd g c (moveable_by_rank rk c))
  end.

(* ------------------------------------------------------------------ *)
(* integer template geometry (units: 1e-3 A)                            *)

Definition zpt : Type := (Z * Z * Z)%type.
Definition zd2 (p q : zpt) : Z :=
  let '(x1, y1, z1) := p in let '(x2, y2, z2) := q in
  ((x1 - x2) * (x1 - x2) + (y1 - y2) * (y1 - y2) + (z1 - z2) * (z1 - z2))%Z.

(* one template with coordinates: name, atoms (name, xyz, bonds) *)
Definition gatom : Type := (id * zpt * list id)%type.
Definition gtempl : Type := (id * list gatom)%type.

Definition gfind (t : gtempl) (a : id) : option gatom :=
  find (fun x => Pos.eqb (fst (fst x)) a) (snd t).

(* every bond of atom x that points to an atom of the template has a squared
   length in [lo2, hi2] *)
Definition bonds_in_range (lo2 hi2 : Z) (t : gtempl) (x : gatom) : bool :=
  forallb (fun b => match gfind t b with
                    | None => true      (* N+1 / C-1 or an atom another patch adds *)
                    | Some y => let d := zd2 (snd (fst x)) (snd (fst y)) in
                                Z.leb lo2 d && Z.leb d hi2
                    end) (snd x).

(* it has at least one bonded atom inside the template (a parent exists) *)
Definition has_parent (t : gtempl) (x : gatom) : bool :=
  existsb (fun b => match gfind t b with Some _ => true | None => false end) (snd x).

(* no other atom of the template within sqrt(min2) *)
Definition apart (min2 : Z) (t : gtempl) (x : gatom) : bool :=
  forallb (fun y => Pos.eqb (fst (fst y)) (fst (fst x)) || Z.leb min2 (zd2 (snd (fst x)) (snd (fst y)))) (snd t).

(* template-level sanity of an atom pdb2pqr may have to add *)
Definition gatom_ok (lo2 hi2 min2 : Z) (t : gtempl) (x : gatom) : bool :=
  has_parent t x && bonds_in_range lo2 hi2 t x && apart min2 t x.
