(* End-to-end model of `pdb2pqr --clean [--drop-water] [--keep-chain] [--whitespace] in.pdb out.pqr`
   as the COMPOSITION of the C07 model (pdb.read_pdb ; main.drop_water ;
   Biomolecule.__init__  = [ingest]) and the C08 model (Atom.get_pqr_string,
   io.print_biomolecule_atoms, main.print_pqr), with the one stage of
   main.main_driver that sits between them and is in neither:

     biomolecule.set_termini(neutraln=False, neutralc=False)   [set_termini] below
     biomolecule.update_bonds()                                 no effect on what is printed
                                                                (PEPTIDE patch has no remove /
                                                                altnames: checked by the harness)

   main_driver with args.clean:
     pdblist = io.get_molecule(path)          read_pdb            (C07: read_pdb)
     [pdblist = drop_water(pdblist)]                              (C07: drop_water)
     setup_molecule -> Biomolecule(pdblist)                       (C07: group)
     set_termini ; update_bonds                                   (this file)
     lines = io.print_biomolecule_atoms(biomolecule.atoms, keep_chain)   (C08: print_atoms)
     print_pqr(lines, header "", missing None, is_cif False)      (C08: written_chunks)

   set_termini is NOT inert in clean mode (all of this is what the code does):
     * assign_termini applies the NTERM / CTERM / 5TERM / 3TERM patches: atoms are
       RENAMED (HT1,H1,1H -> H ... ; O'',OT2 -> OXT ; O',OT1 -> O) and REMOVED
       (5TERM removes O1P, P, O2P of the first nucleotide of every chain);
     * a chain is split in front of an internal OXT / H3T ("hidden chains"): the
       residues up to it get a fresh chain id (and a TER line follows them);
     * a blank chain id is replaced by a fresh letter unless the last chain is
       all water.
   The patch tables enter as the parameter [pt] (regenerated from /repo by the
   harness on every run).

   Field mapping C07 atomrec -> C08 atom ([conv]):
     a_type     := "HETATM" if a_het else "ATOM"   (Atom.type; set by the residue class)
     a_serial   := C07 serial (overwritten by print_biomolecule_atoms: position + 1)
     a_name     := a_name        (after the alias renaming of the residue class / patches)
     a_res_name := a_resname     (residue name after RNA mapping)
     a_chain    := a_chain       a_res_seq := a_resseq      a_ins := a_icode
     a_x/y/z    := r3 (coordinate text)   oracle: float(text) rendered by '%.3f'
     a_charge   := None  a_radius := None  (Atom.ffcharge / Atom.radius are None in clean
                                            mode: nothing assigns them; printed "0.0000")
   occupancy / tempFactor / segID / element / charge of the input are not printed
   in a PQR file and are not modelled.

   Oracles (Section-style parameters of every function and theorem):
     fok  : float(text) succeeds                (C07)
     r3   : text -> the '%.3f' rendering of float(text) as sign + magnitude/1000
     near : the cyclic-chain test  distance(N of first, C of last) < 1.35 (floats)
   Executable instances: py_float_ok, [r3_exec], [near_dec]. No proofs here. *)
From Coq Require Import String Ascii List Arith NArith ZArith Bool.
From PV Require Import Lib.Strings Lib.Decimal Model.PdbRead Model.Group Model.PdbSpec.
From PV Require Model.PqrFormat.
Import ListNotations.
Local Open Scope string_scope.

(* ---- patches ----------------------------------------------------------------- *)

(* (names removed, alternative names) of a topology patch *)
Definition patch := (list string * list (string * string))%type.

Record ptab := mkPT { pt_nterm : patch; pt_cterm : patch; pt_5term : patch; pt_3term : patch }.

(* a residue object during set_termini *)
Record tres := mkT {
  t_r : resid;
  t_kind : kind;          (* class of the residue object *)
  t_cterm : bool;         (* is_c_term *)
  t_3term : bool;         (* is3term *)
  t_nterm : bool;         (* is_n_term *)
  t_5term : bool          (* is5term *)
}.

Definition kind_of (tab : deftab) (r : resid) : kind :=
  match lookup (r_name r) tab with Some (k, _) => k | None => KGeneric end.

Definition with_atoms (r : resid) (l : list atomrec) : resid :=
  mkR (r_name r) (r_chain r) (r_resseq r) (r_icode r) l.

Definition has_atom (n : string) (r : resid) : bool :=
  existsb (fun a => a_name a =? n) (r_atoms r).

Fixpoint remove_first (n : string) (l : list atomrec) : list atomrec :=
  match l with
  | [] => []
  | a :: r => if a_name a =? n then r else a :: remove_first n r
  end.

(* Biomolecule.apply_patch, as far as the printed atoms go: the removals, then
   the renamings *)
Definition apply_patch (p : patch) (r : resid) : resid :=
  let removed := fold_left (fun l n => remove_first n l) (fst p) (r_atoms r) in
  with_atoms r (map (fun a => set_name a (alt_name (snd p) (a_name a))) removed).

Definition patch_t (p : patch) (t : tres) : tres :=
  mkT (apply_patch p (t_r t)) (t_kind t) (t_cterm t) (t_3term t) (t_nterm t) (t_5term t).

Definition get_atom (n : string) (r : resid) : option atomrec :=
  find (fun a => a_name a =? n) (r_atoms r).

Section Termini.
  Variable pt : ptab.
  Variable near : atomrec -> atomrec -> bool.

  Definition mark_c (t : tres) : tres :=
    let t' := patch_t (pt_cterm pt) t in mkT (t_r t') (t_kind t') true (t_3term t') (t_nterm t') (t_5term t').
  Definition mark_3 (t : tres) : tres :=
    let t' := patch_t (pt_3term pt) t in mkT (t_r t') (t_kind t') (t_cterm t') true (t_nterm t') (t_5term t').

  (* the C-terminus side, on the reversed residue list: the last residue, or -
     when it is neither amino nor nucleic - the nearest one before it, stopping
     at NH2 / NME *)
  Fixpoint scan_last (l : list tres) : list tres :=
    match l with
    | [] => []
    | t :: r =>
        match t_kind t with
        | KAmino => mark_c t :: r
        | KNucleic => mark_3 t :: r
        | _ => if mem_str (r_name (t_r t)) ["NH2"; "NME"] then l else t :: scan_last r
        end
    end.

  Definition mark_n (t : tres) : tres := mkT (t_r t) (t_kind t) (t_cterm t) (t_3term t) true (t_5term t).
  Definition mark_5 (t : tres) : tres := mkT (t_r t) (t_kind t) (t_cterm t) (t_3term t) (t_nterm t) true.

  Definition mark_first (l : list tres) : list tres :=
    match l with
    | [] => []
    | t :: r =>
        match t_kind t with
        | KAmino => mark_n (patch_t (pt_nterm pt) t) :: r
        | KNucleic => mark_5 (patch_t (pt_5term pt) t) :: r
        | _ => l
        end
    end.

  Definition cyclic (l : list tres) : bool :=
    match l with
    | [] => false
    | t0 :: _ =>
        (* since /repo 892120d: the closure is tested between the first residue
           that has an N and the last one that has a C (waters / ligands listed
           under the chain's ID are not part of the ring); defaults = first / last *)
        let ring0 := match find (fun t => has_atom "N" (t_r t)) l with Some t => t | None => t0 end in
        let ringlast := match find (fun t => has_atom "C" (t_r t)) (rev l) with
                        | Some t => t | None => List.last l t0 end in
        match get_atom "N" (t_r ring0), get_atom "C" (t_r ringlast) with
        | Some n, Some c => near n c
        | _, _ => false
        end
    end.

  (* Biomolecule.assign_termini(chain); None = IndexError (chain has 0 residues) *)
  Definition assign_termini (l : list tres) : option (list tres) :=
    match l with
    | [] => None
    | _ => if cyclic l then Some l else Some (rev (scan_last (rev (mark_first l))))
    end.

  Definition ends3 (s : string) : bool :=
    match rev (list_ascii_of_string s) with c :: _ => Ascii.eqb c "3"%char | [] => false end.

  Definition fixflag (t : tres) : bool :=
    match t_kind t with
    | KAmino => has_atom "OXT" (t_r t) && negb (t_cterm t)
    | KNucleic => (has_atom "H3T" (t_r t) || ends3 (r_name (t_r t))) && negb (t_3term t)
    | _ => false
    end.

  Definition letters52 : list string :=
    map (fun c => String c EmptyString)
        (list_ascii_of_string "ABCDEFGHIJKLMNOPQRSTUVWXYZabcdefghijklmnopqrstuvwxyz").

  Definition rep_s (n : nat) (s : string) : string := String.concat "" (repeat s n).

  (* first of A..z, AA..zz, AAA.. not among the chainmap keys *)
  Definition fresh_id (keys : list string) : string :=
    match find (fun c => negb (mem_str c keys))
               (flat_map (fun n => map (rep_s n) letters52) [1; 2; 3; 4])%nat with
    | Some c => c
    | None => "A"
    end.

  Definition first_char (s : string) : string :=
    match s with String c _ => String c EmptyString | EmptyString => EmptyString end.

  Definition set_res_chain (c : string) (t : tres) : tres :=
    let r := t_r t in
    mkT (mkR (r_name r) c (r_resseq r) (r_icode r) (map (fun a => set_chain a c) (r_atoms r)))
        (t_kind t) (t_cterm t) (t_3term t) (t_nterm t) (t_5term t).

  (* one chain of the while loop: [pre] = reslist, [todo] = the residues of the
     chain not yet looked at, [done] = the chains split off so far (in order).
     None = IndexError of assign_termini on the emptied chain *)
  Fixpoint split_chain (fuel : nat) (keys : list string) (done : list (list tres))
           (pre todo : list tres) : option (list (list tres) * list tres * list string) :=
    match fuel with
    | O => None
    | S f =>
        match todo with
        | [] => Some (done, pre, keys)
        | t :: rest =>
            if fixflag t then
              let cid := fresh_id keys in
              let moved := map (set_res_chain (first_char cid)) (pre ++ [t])%list in
              match assign_termini rest, assign_termini moved with
              | Some rest', Some moved' =>
                  split_chain f (keys ++ [cid])%list (done ++ [moved'])%list [] rest'
              | _, _ => None
              end
            else split_chain f keys done (pre ++ [t])%list rest
        end
    end.

  (* chains: (key in chainmap, residues) in the order of Biomolecule.chains *)
  Fixpoint split_all (keys : list string) (chains : list (string * list tres))
    : option (list (string * list tres) * list string) :=
    match chains with
    | [] => Some ([], keys)
    | (k, l) :: more =>
        match split_chain (S (List.length l)) keys [] [] l with
        | None => None
        | Some (done, remain, keys') =>
            match split_all keys' more with
            | None => None
            | Some (out, keys'') =>
                Some ((map (fun d => ("*", d)) done ++ (k, remain) :: out)%list, keys'')
            end
        end
    end.

  Fixpoint map_opt {A B} (f : A -> option B) (l : list A) : option (list B) :=
    match l with
    | [] => Some []
    | x :: r => match f x, map_opt f r with Some y, Some ys => Some (y :: ys) | _, _ => None end
    end.

  Definition is_water_t (t : tres) : bool := match t_kind t with KWater => true | _ => false end.

  (* Biomolecule.set_termini on the chains; the result is the residue list in
     the order of Biomolecule.atoms.  None = IndexError *)
  Definition set_termini_chains (chains : list (string * list tres)) : option (list tres) :=
    match map_opt (fun c => option_map (fun l => (fst c, l)) (assign_termini (snd c))) chains with
    | None => None
    | Some chains1 =>
        match split_all (map fst chains) chains1 with
        | None => None
        | Some (chains2, keys) =>
            let relabel :=
              mem_str "" keys &&
              match List.last (map Some chains2) None with
              | Some (_, l) => negb (forallb is_water_t l)
              | None => false
              end in
            let cid := first_char (fresh_id keys) in
            Some (flat_map (fun c => if relabel && (fst c =? "") then map (set_res_chain cid) (snd c)
                                     else snd c) chains2)
        end
    end.

End Termini.

(* the chains of Biomolecule.chains from the flat residue list of [group]:
   residues of one chain are consecutive and carry the chain's key *)
Fixpoint chains_of (l : list tres) : list (string * list tres) :=
  match l with
  | [] => []
  | t :: r =>
      match chains_of r with
      | (k, m) :: more => if r_chain (t_r t) =? k then (k, t :: m) :: more
                          else (r_chain (t_r t), [t]) :: (k, m) :: more
      | [] => [(r_chain (t_r t), [t])]
      end
  end.

(* the residue objects after set_termini, in the order of Biomolecule.residues
   (= the order of Biomolecule.atoms: splitting keeps the order), with their flags *)
Definition set_termini_res (tab : deftab) (pt : ptab) (near : atomrec -> atomrec -> bool)
  (rs : list resid) : option (list tres) :=
  set_termini_chains pt near
    (chains_of (map (fun r => mkT r (kind_of tab r) false false false false) rs)).

Definition set_termini (tab : deftab) (pt : ptab) (near : atomrec -> atomrec -> bool)
  (rs : list resid) : option (list atomrec) :=
  option_map (fun l => all_atoms (map t_r l)) (set_termini_res tab pt near rs).

(* ---- C07 atom -> C08 atom ------------------------------------------------------ *)

Definition conv (r3 : string -> PqrFormat.fx) (a : atomrec) : PqrFormat.atom :=
  PqrFormat.mkatom (show_bool (a_het a)) (a_serial a) (a_name a) (a_resname a) (a_chain a)
                   (a_resseq a) (a_icode a) (r3 (a_x a)) (r3 (a_y a)) (r3 (a_z a)) None None.

(* ---- the run ---------------------------------------------------------------------- *)

Section Run.
  Variable fok : string -> bool.
  Variable tab : deftab.
  Variable pt : ptab.
  Variable near : atomrec -> atomrec -> bool.
  Variable r3 : string -> PqrFormat.fx.

  (* Biomolecule.atoms when print_biomolecule_atoms is called; None = an exception
     left main_driver (ValueError of read_pdb, "Too many chains", IndexError of
     assign_termini) *)
  Definition clean_atoms (dropw : bool) (lines : list string) : option (list atomrec) :=
    match ingest fok tab dropw lines with
    | Raised _ => None
    | Done rs => set_termini tab pt near rs
    end.

  (* results["lines"] as items *)
  Definition clean_items (dropw keep_chain : bool) (lines : list string)
    : option (list PqrFormat.item) :=
    option_map (fun l => PqrFormat.print_items keep_chain (map (conv r3) l)) (clean_atoms dropw lines).

  (* what print_pqr writes, one string per outfile.write call *)
  Definition clean_run (dropw keep_chain whitespace : bool) (lines : list string)
    : option (list string) :=
    option_map (fun its => PqrFormat.written_chunks whitespace false (map PqrFormat.item_text its))
               (clean_items dropw keep_chain lines).

  Definition clean_file (dropw keep_chain whitespace : bool) (lines : list string) : option string :=
    option_map (String.concat "") (clean_run dropw keep_chain whitespace lines).

End Run.

(* ---- executable oracles ---------------------------------------------------------- *)

Definition pow10 (n : nat) : N := N.pow 10 (N.of_nat n).

(* '%.3f' of a plain decimal text: exact up to three decimals; beyond that the
   decimal value is rounded, ties to even (a tie in decimal is decided by the
   binary value in Python: the harness supplies those texts in [tbl]) *)
Definition dec_r3 (s : string) : PqrFormat.fx :=
  match PqrFormat.plain_decimal (strip s) with
  | Some (PqrFormat.PF neg m sc) =>
      if (sc <=? 3)%nat then PqrFormat.mkfx neg (m * pow10 (3 - sc))
      else
        let d := pow10 (sc - 3) in
        let q := (m / d)%N in
        let r := (m mod d)%N in
        let up := (d <? 2 * r)%N || ((2 * r =? d)%N && N.odd q) in
        PqrFormat.mkfx neg (if up then q + 1 else q)%N
  | None => PqrFormat.mkfx false 0
  end.

Definition r3_exec (tbl : list (string * PqrFormat.fx)) (s : string) : PqrFormat.fx :=
  match lookup s tbl with Some v => v | None => dec_r3 s end.

(* distance < 1.35 by exact decimal arithmetic (plain decimals only) *)
Definition dec_at (sc : nat) (s : string) : option Z :=
  match PqrFormat.plain_decimal (strip s) with
  | Some (PqrFormat.PF neg m k) =>
      if (k <=? sc)%nat then
        let v := Z.of_N (m * pow10 (sc - k)) in Some (if neg then (- v)%Z else v)
      else None
  | None => None
  end.

Definition near_dec (a b : atomrec) : bool :=
  let sc := 8%nat in
  match dec_at sc (a_x a), dec_at sc (a_y a), dec_at sc (a_z a),
        dec_at sc (a_x b), dec_at sc (a_y b), dec_at sc (a_z b) with
  | Some x1, Some y1, Some z1, Some x2, Some y2, Some z2 =>
      let d2 := ((x1 - x2) * (x1 - x2) + (y1 - y2) * (y1 - y2) + (z1 - z2) * (z1 - z2))%Z in
      (* d2 / 10^16 < 1.35^2 = 18225 / 10^4 *)
      (d2 * 10000 <? 18225 * Z.of_N (pow10 16))%Z
  | _, _, _, _, _, _ => false
  end.

(* ---- the independent column read of an input line / of an output line --------- *)

(* what a coordinate line of the input says, by fixed columns *)
Record crec := mkC {
  c_chain : string; c_resseq : option Z; c_icode : string;
  c_x : option PqrFormat.pfloat; c_y : option PqrFormat.pfloat; c_z : option PqrFormat.pfloat
}.

Record nrec := mkN { n_type : string; n_name : string; n_resname : string }.

Definition pf3 (r3 : string -> PqrFormat.fx) (s : string) : option PqrFormat.pfloat :=
  Some (PqrFormat.pf_of 3 (r3 s)).

Definition in_crec (r3 : string -> PqrFormat.fx) (keep : bool) (l : string) : crec :=
  mkC (if keep then strip (slice 21 22 l) else "") (py_int (slice 22 26 l)) (strip (slice 26 27 l))
      (pf3 r3 (strip (slice 30 38 l))) (pf3 r3 (strip (slice 38 46 l))) (pf3 r3 (strip (slice 46 54 l))).

Definition in_nrec (l : string) : nrec :=
  mkN (strip (slice 0 6 l)) (strip (slice 12 16 l)) (strip (slice 17 20 l)).

Definition out_crec (f : PqrFormat.fatom) : crec :=
  mkC (PqrFormat.f_chain f) (PqrFormat.f_res_seq f) (PqrFormat.f_ins f)
      (PqrFormat.f_x f) (PqrFormat.f_y f) (PqrFormat.f_z f).

Definition out_nrec (f : PqrFormat.fatom) : nrec :=
  mkN (PqrFormat.f_type f) (PqrFormat.f_name f) (PqrFormat.f_res_name f).

(* ---- guards (boolean, executable) ------------------------------------------------ *)

Definition atom_eqb (a b : atomrec) : bool :=
  Bool.eqb (a_het a) (a_het b) && (a_tok0 a =? a_tok0 b) && (a_serial a =? a_serial b)%Z &&
  (a_name a =? a_name b) && (a_alt a =? a_alt b) && (a_resname a =? a_resname b) &&
  (a_chain a =? a_chain b) && (a_resseq a =? a_resseq b)%Z && (a_icode a =? a_icode b) &&
  (a_x a =? a_x b) && (a_y a =? a_y b) && (a_z a =? a_z b) && (a_src a =? a_src b).

Fixpoint list_eqb {A} (e : A -> A -> bool) (l1 l2 : list A) : bool :=
  match l1, l2 with
  | [], [] => true
  | x :: r1, y :: r2 => e x y && list_eqb e r1 r2
  | _, _ => false
  end.

(* set_termini leaves the printed atoms alone: no terminal alias name, no 5'
   phosphate removed, no hidden chain, no blank chain relabelled *)
Definition termini_quiet (tab : deftab) (pt : ptab) (near : atomrec -> atomrec -> bool)
  (rs : list resid) : bool :=
  match set_termini tab pt near rs with
  | Some l => list_eqb atom_eqb l (all_atoms rs)
  | None => false
  end.

(* the residue classes left record type, atom name and residue name as the
   columns of the source line have them *)
Definition canon (a : atomrec) : bool :=
  (show_bool (a_het a) =? strip (slice 0 6 (a_src a))) &&
  (a_name a =? strip (slice 12 16 (a_src a))) &&
  (a_resname a =? strip (slice 17 20 (a_src a))).

Fixpoint all_okb (ok : PqrFormat.atom -> bool) (i : nat) (l : list PqrFormat.atom) : bool :=
  match l with
  | [] => true
  | a :: r => ok (PqrFormat.with_serial (Z.of_nat i + 1) a) && all_okb ok (S i) r
  end.

Section Guard.
  Variable fok : string -> bool.
  Variable tab : deftab.
  Variable pt : ptab.
  Variable near : atomrec -> atomrec -> bool.
  Variable r3 : string -> PqrFormat.fx.

  (* C07's guard ; set_termini quiet ; C08's column capacities ([ok] = fixed_ok keep
     or ws_ok keep) for the atoms of the run *)
  Definition e2e_guard (ok : PqrFormat.atom -> bool) (lines : list string) : bool :=
    guard fok tab lines &&
    match ingest fok tab false lines with
    | Done rs => termini_quiet tab pt near rs && all_okb ok 0 (map (conv r3) (all_atoms rs))
    | Raised _ => false
    end.

  Definition canon_guard (lines : list string) : bool :=
    match ingest fok tab false lines with
    | Done rs => forallb canon (all_atoms rs)
    | Raised _ => false
    end.
End Guard.

Definition no_water (lines : list string) : list string :=
  filter (fun l => negb (is_water_line l)) lines.

(* ---- show functions for the harness ------------------------------------------------ *)

Definition show_clean (o : option string) : string :=
  match o with Some s => "OK:" ++ s | None => "EXC" end.

Definition show_bools (l : list bool) : string :=
  string_of_list_ascii (map (fun b : bool => if b then "1"%char else "0"%char) l).
