(* C14, the call-site protocols: HOW pdb2pqr uses cells.py.

   Every function of /repo/pdb2pqr that can run while a Cells object is live
   and that adds/removes cells, writes coordinates, creates or deletes atoms
   (the rows of Generated/C14Sites.v) is written here as a small program over
   the operations of Model/Cells.v, exactly in the order the Python executes
   them.  Everything the cell list cannot see (geometry, hydrogen-bond tests,
   energies, which names exist) is an ORACLE argument; the theorems in
   Proofs/CellsUse.v hold for all oracle values.

   State beyond Model/Cells.v:
     present a   the Atom object is in a residue of the biomolecule (what a
                 brute-force search ranges over)
     bonds a     atom.bonds, in list order (rotate_tetrahedral moves
                 atom2.bonds minus atom1, so the bond lists decide WHICH atoms
                 a rotation writes)
     next        object allocation: create_atom builds a NEW Atom object
                 (Atom.__init__ sets cell = None); ids >= next do not exist yet
     qlog        ghost: the cell-list state at every get_near_cells call *)
From Coq Require Import ZArith List Bool Arith.
From PV Require Import Model.Cells.
Import ListNotations.
Local Open Scope Z_scope.

(* one get_near_cells call AND its use: the block was queried for q_atom and the caller
   iterates it as the candidate partners of q_used (in the source always the same atom:
   `closeatoms = cells.get_near_cells(atom)` directly followed by `for closeatom in closeatoms`
   with `atom` as the subject - rows of Generated/C14Sites.v query_use) *)
Record qentry := mkQ { q_atom : nat; q_used : nat; q_cs : state; q_present : nat -> bool }.

Record ustate := mkU {
  cs : state;
  present : nat -> bool;
  bonds : nat -> list nat;
  next : nat;
  qlog : list qentry
}.

Definition mem (a : nat) (l : list nat) : bool := existsb (Nat.eqb a) l.

Section Use.
  Variables size D : Z.

  (* ---- primitives ------------------------------------------------------ *)

  (* self.routines.cells.add_cell(a) *)
  Definition u_add (a : nat) (u : ustate) : ustate :=
    mkU (add_cell size D (cs u) a) (present u) (bonds u) (next u) (qlog u).

  (* self.routines.cells.remove_cell(a) *)
  Definition u_remove (a : nat) (u : ustate) : ustate :=
    mkU (remove_cell (cs u) a) (present u) (bonds u) (next u) (qlog u).

  (* a.x = ..; a.y = ..; a.z = ..  (three attribute writes in a row) *)
  Definition u_write (a : nat) (p : pos) (u : ustate) : ustate :=
    mkU (move (cs u) a p) (present u) (bonds u) (next u) (qlog u).

  (* "if b not in a.bonds: a.bonds.append(b)" *)
  Definition link1 (a b : nat) (bd : nat -> list nat) : nat -> list nat :=
    if mem b (bd a) then bd else upd Nat.eqb bd a (bd a ++ [b])%list.

  (* both directions, only between atoms that exist (has_atom guards) *)
  Definition u_link (a b : nat) (u : ustate) : ustate :=
    if present u a && present u b
    then mkU (cs u) (present u) (link1 b a (link1 a b (bonds u))) (next u) (qlog u)
    else u.

  (* residue.create_atom(name, p): a NEW Atom object h = next (cell None),
     appended to the residue; add_atom links it to the reference-bonded atoms
     that exist (bs, an oracle; callers that append bonds by hand pass them in
     bs too).  Returns the new state; the new atom is [next u]. *)
  Definition u_create (p : pos) (bs : list nat) (u : ustate) : ustate :=
    let h := next u in
    let bs' := filter (present u) bs in
    let bd0 := upd Nat.eqb (bonds u) h [] in
    mkU (move (cs u) h p) (upd Nat.eqb (present u) h true)
        (fold_left (fun bd b => link1 b h (link1 h b bd)) bs' bd0)
        (S h) (qlog u).

  (* residue.remove_atom(name): out of residue.atoms / residue.map, and out of
     the bond list of every atom it was bonded to.  The cell list is NOT told. *)
  Definition u_delete (h : nat) (u : ustate) : ustate :=
    mkU (cs u) (upd Nat.eqb (present u) h false)
        (fold_left (fun bd b => upd Nat.eqb bd b (remove_first h (bd b))) (bonds u h) (bonds u))
        (next u) (qlog u).

  (* closeatoms = cells.get_near_cells(qa); for closeatom in closeatoms: ... used ... *)
  Definition u_use (qa used : nat) (u : ustate) : ustate :=
    mkU (cs u) (present u) (bonds u) (next u) (mkQ qa used (cs u) (present u) :: qlog u).

  (* every use site of the source: the block is used for the atom it was queried for *)
  Definition u_query (a : nat) (u : ustate) : ustate := u_use a a u.

  (* Residue.rotate_tetrahedral(atom1 = pivot, atom2 = atom, angle): every atom
     bonded to atom2 except atom1 is written; f = the new coordinates *)
  Definition moved (u : ustate) (pivot atom : nat) : list nat :=
    filter (fun m => negb (Nat.eqb m pivot)) (bonds u atom).

  Definition u_rotate (pivot atom : nat) (f : nat -> pos) (u : ustate) : ustate :=
    fold_left (fun u m => u_write m (f m) u) (moved u pivot atom) u.

  Definition for_i (n : nat) (body : nat -> ustate -> ustate) (u : ustate) : ustate :=
    fold_left (fun u i => body i u) (seq 0 n) u.

  Definition for_each {A} (l : list A) (body : A -> ustate -> ustate) (u : ustate) : ustate :=
    fold_left (fun u x => body x u) l u.

  (* ---- recurring shapes -------------------------------------------------- *)

  (* remove_cell(a); a.x,y,z = p; add_cell(a).  a comes from residue.get_atom:
     None (not present) raises AttributeError and the run ends - modelled as stop *)
  Definition rewrite (a : nat) (p : pos) (u : ustate) : ustate :=
    if present u a then u_add a (u_write a p (u_remove a u)) else u.

  (* cells.remove_cell(a); residue.remove_atom(a.name) *)
  Definition remove_delete (a : nat) (u : ustate) : ustate := u_delete a (u_remove a u).

  (* residue.create_atom(..); cells.add_cell(residue.get_atom(..)) *)
  Definition create_add (p : pos) (bs : list nat) (u : ustate) : ustate :=
    let h := next u in u_add h (u_create p bs u).

  (* ---- cells.Cells.assign_cells on a NEW Cells object -------------------- *)
  (* cellmap = {}; for atom in biomolecule.atoms: atom.cell = None; add_cell(atom).
     Atom objects that are no longer in the biomolecule keep a stale .cell in
     Python; no code path re-inserts a removed Atom object, the model drops them. *)
  Definition assign_cells (atoms : list nat) (u : ustate) : ustate :=
    for_each atoms u_add
      (mkU (mk (fun _ => []) (fun _ => None) (posn (cs u))) (present u) (bonds u) (next u) []).

  (* ---- debump.Debump.set_dihedral_angle ---------------------------------- *)
  (* for name in moveablenames: atom = get_atom(name); remove_cell; write; add_cell *)
  Definition set_dihedral_angle (atoms : list nat) (f : nat -> pos) (u : ustate) : ustate :=
    for_each atoms (fun a => rewrite a (f a)) u.

  (* debump.Debump.debump_residue / debump_biomolecule: rotations interleaved
     with find_nearby_atoms queries (script: inl = a rotation, inr = a query) *)
  Definition debump_script := list ((list nat * (nat -> pos)) + nat)%type.
  Definition debump_run (sc : debump_script) (u : ustate) : ustate :=
    for_each sc (fun s => match s with inl (atoms, f) => set_dihedral_angle atoms f | inr a => u_query a end) u.

  (* ---- hydrogens/optimize.py --------------------------------------------- *)

  (* get_positions_with_two_bonds(atom) / get_position_with_three_bonds(atom)
     (as repaired by e1a3cf3, finding C14-F6): the coordinates of everything
     bonded to atom except bonds[0] are saved, those atoms are rotated twice by
     120 degrees about bonds[0]-atom (they ARE registered: an existing H or LP;
     the cell list is not told), and the saved coordinates are written back.
     No cell operation and no query happens in between. *)
  Definition rot3 (atom : nat) (g : nat -> nat -> pos) (u : ustate) : ustate :=
    let pivot := hd 0%nat (bonds u atom) in
    let ms := moved u pivot atom in
    let u' := for_i 2 (fun i => u_rotate pivot atom (g i)) u in
    for_each ms (fun m => u_write m (posn (cs u) m)) u'.

  Definition get_positions_with_two_bonds := rot3.
  Definition get_position_with_three_bonds := rot3.

  (* make_atom_with_no_bonds(atom, closeatom, addname): create, add_cell, bonds *)
  Definition make_atom_with_no_bonds (atom : nat) (p : pos) (u : ustate) : ustate :=
    create_add p [atom] u.

  (* make_water_with_one_bond / make_atom_with_one_bond_h / _lp: create only.
     bs = the atoms it gets bonded to (by hand or through the reference) *)
  Definition make_atom_with_one_bond (p : pos) (bs : list nat) (u : ustate) : ustate :=
    u_create p bs u.

  (* try_single_alcoholic_h(donor, acc, newatom = h): 72 rotations about
     donor.bonds[0]; then best coordinates + add_cell, or remove_atom *)
  Definition try_single_alcoholic_h (donor h : nat) (f : nat -> nat -> pos) (best : option pos) (u : ustate) : ustate :=
    let pivot := hd 0%nat (bonds u donor) in
    let u := for_i 72 (fun i => u_rotate pivot donor (f i)) u in
    match best with
    | Some p => u_add h (u_write h p u)
    | None => u_delete h u
    end.

  (* try_single_alcoholic_lp(acc, donor, newatom = h) *)
  Definition try_single_alcoholic_lp (acc h : nat) (hbond : bool) (f : nat -> nat -> pos) (best : option pos) (u : ustate) : ustate :=
    let pivot := hd 0%nat (bonds u acc) in
    if negb hbond then u_delete h u else
    let u := for_i 72 (fun i => u_rotate pivot acc (f i)) u in
    match best with
    | None => u_delete h u
    | Some p => u_add h (u_write h p u)
    end.

  (* try_positions_with_two_bonds_h(donor, acc, newname, loc1, loc2) *)
  Definition try_positions_with_two_bonds_h (loc1 loc2 : pos) (bs : list nat) (best : option pos) (u : ustate) : ustate :=
    let h := next u in
    let u := u_write h loc2 (u_create loc1 bs u) in
    match best with
    | Some p => u_add h (u_write h p u)
    | None => u_delete h u
    end.

  (* try_positions_with_two_bonds_lp(acc, donor, newname, loc1, loc2) *)
  Definition try_positions_with_two_bonds_lp (acc : nat) (hbond : bool) (loc1 loc2 : pos) (bs : list nat) (best : option pos) (u : ustate) : ustate :=
    if negb hbond then u else
    let h := next u in
    let u := u_write h loc2 (u_create loc1 bs u) in
    match best with
    | None => u_delete h u
    | Some p => u_link acc h (u_add h (u_write h p u))
    end.

  (* try_positions_three_bonds_h(donor, acc, newname, loc) *)
  Definition try_positions_three_bonds_h (loc : pos) (bs : list nat) (hbond : bool) (u : ustate) : ustate :=
    let h := next u in
    let u := u_create loc bs u in
    if hbond then u_add h u else u_delete h u.

  (* try_positions_three_bonds_lp(acc, donor, newname, loc) *)
  Definition try_positions_three_bonds_lp (acc : nat) (hbond : bool) (loc : pos) (bs : list nat) (geom_ok : bool) (u : ustate) : ustate :=
    if negb hbond then u else
    let h := next u in
    let u := u_create loc bs u in
    if negb geom_ok then u_delete h u else u_link acc h (u_add h u).

  (* oracle bundle of one try_donor / try_acceptor call *)
  Record try_oracle := mkTry {
    t_enabled : bool;              (* the early "return False" tests passed *)
    t_p0 : pos;                    (* first coordinates of the new atom *)
    t_bs : list nat;               (* atoms the new atom is bonded to *)
    t_rot : nat -> nat -> pos;     (* coordinates after the i-th rotation *)
    t_hbond : bool;                (* is_hbond(donor, acc) where the code asks *)
    t_geom : bool;                 (* the angle test of the lone-pair routines *)
    t_loc2 : pos;
    t_best : option pos            (* Some = "bestcoords != []" *)
  }.

  (* Alcoholic.try_donor(donor, acc) *)
  Definition alcoholic_try_donor (o : try_oracle) (donor : nat) (u : ustate) : ustate :=
    if negb (t_enabled o) then u else
    match length (bonds u donor) with
    | 1%nat => let h := next u in
               try_single_alcoholic_h donor h (t_rot o) (t_best o) (make_atom_with_one_bond (t_p0 o) (t_bs o) u)
    | 2%nat => try_positions_with_two_bonds_h (t_p0 o) (t_loc2 o) (t_bs o) (t_best o) (get_positions_with_two_bonds donor (t_rot o) u)
    | 3%nat => try_positions_three_bonds_h (t_p0 o) (t_bs o) (t_hbond o) (get_position_with_three_bonds donor (t_rot o) u)
    | _ => u
    end.

  (* Alcoholic.try_acceptor(acc, donor) *)
  Definition alcoholic_try_acceptor (o : try_oracle) (acc : nat) (u : ustate) : ustate :=
    if negb (t_enabled o) then u else
    match length (bonds u acc) with
    | 1%nat => let h := next u in
               try_single_alcoholic_lp acc h (t_hbond o) (t_rot o) (t_best o) (make_atom_with_one_bond (t_p0 o) (acc :: t_bs o) u)
    | 2%nat => try_positions_with_two_bonds_lp acc (t_hbond o) (t_p0 o) (t_loc2 o) (t_bs o) (t_best o) (get_positions_with_two_bonds acc (t_rot o) u)
    | 3%nat => try_positions_three_bonds_lp acc (t_hbond o) (t_p0 o) (t_bs o) (t_geom o) (get_position_with_three_bonds acc (t_rot o) u)
    | _ => u
    end.

  (* Water.try_donor(donor, acc) *)
  Definition water_try_donor (o : try_oracle) (donor : nat) (u : ustate) : ustate :=
    if negb (t_enabled o) then u else
    match length (bonds u donor) with
    | 0%nat => let h := next u in
               let u := make_atom_with_no_bonds donor (t_p0 o) u in
               if t_hbond o then u else remove_delete h u
    | 1%nat => let h := next u in
               try_single_alcoholic_h donor h (t_rot o) (t_best o) (make_atom_with_one_bond (t_p0 o) (donor :: t_bs o) u)
    | 2%nat => try_positions_with_two_bonds_h (t_p0 o) (t_loc2 o) (t_bs o) (t_best o) (get_positions_with_two_bonds donor (t_rot o) u)
    | 3%nat => try_positions_three_bonds_h (t_p0 o) (t_bs o) (t_hbond o) (get_position_with_three_bonds donor (t_rot o) u)
    | _ => u
    end.

  (* Water.try_acceptor(acc, donor) *)
  Definition water_try_acceptor (o : try_oracle) (acc : nat) (u : ustate) : ustate :=
    if negb (t_enabled o) then u else
    match length (bonds u acc) with
    | 0%nat => if t_hbond o then make_atom_with_no_bonds acc (t_p0 o) u else u
    | 1%nat => let h := next u in
               try_single_alcoholic_lp acc h (t_hbond o) (t_rot o) (t_best o) (make_atom_with_one_bond (t_p0 o) (acc :: t_bs o) u)
    | 2%nat => try_positions_with_two_bonds_lp acc (t_hbond o) (t_p0 o) (t_loc2 o) (t_bs o) (t_best o) (get_positions_with_two_bonds acc (t_rot o) u)
    | 3%nat => try_positions_three_bonds_lp acc (t_hbond o) (t_p0 o) (t_bs o) (t_geom o) (get_position_with_three_bonds acc (t_rot o) u)
    | _ => u
    end.

  (* ---- hydrogens/structures.py ------------------------------------------- *)

  (* Flip.__init__: set_dihedral_angle, then one *FLIP atom per cached
     position: create_atom; add_cell; bonds by hand (bs) *)
  Definition flip_init (atoms : list nat) (f : nat -> pos) (news : list (pos * list nat)) (u : ustate) : ustate :=
    for_each news (fun n => create_add (fst n) (snd n)) (set_dihedral_angle atoms f u).

  (* Flip.fix_flip(bondatom) / Flip.finalize(): for each atom of the losing
     set: cells.remove_cell(atom); residue.remove_atom(name) *)
  Definition remove_delete_all (dels : list nat) (u : ustate) : ustate := for_each dels remove_delete u.
  Definition flip_fix_flip := remove_delete_all.
  Definition flip_finalize (fixed : bool) (dels : list nat) (u : ustate) : ustate :=
    if fixed then u else remove_delete_all dels u.

  (* Alcoholic.__init__: if residue.has_atom(name): remove_cell(atom); remove_atom(name) *)
  Definition alcoholic_init (has : bool) (a : nat) (u : ustate) : ustate :=
    if has then remove_delete a u else u.

  (* X.try_both(donor, acc, accobj) for Alcoholic and Water: own try_donor,
     then the OTHER object's try_acceptor (any protocol of this file), and if
     that fails the donor hydrogen is taken out again *)
  Definition try_both_undo (mine other : ustate -> ustate) (other_ok : bool) (undo : option nat) (u : ustate) : ustate :=
    let u := other (mine u) in
    if other_ok then u else match undo with Some h => remove_delete h u | None => u end.

  Record fin_oracle := mkFin {
    f_skip : bool;                 (* residue.fixed or the atom is already there *)
    f_p0 : pos;
    f_bs : list nat;
    f_rot : nat -> nat -> pos;
    f_best : option pos;
    f_loc2 : pos;
    f_back : bool;                 (* "if this is worse, switch back" *)
    f_near : bool;                 (* get_closest_atom returned an atom *)
    f_again : bool                 (* addname == "H1": finalize once more *)
  }.

  (* Alcoholic.finalize() with atom = self.atomlist[0] *)
  Definition alcoholic_finalize (o : fin_oracle) (atom : nat) (u : ustate) : ustate :=
    if f_skip o then u else
    match length (bonds u atom) with
    | 1%nat =>
        let pivot := hd 0%nat (bonds u atom) in
        let h := next u in
        let u := u_add h (make_atom_with_one_bond (f_p0 o) (f_bs o) u) in
        let u := for_i 18 (fun i u => u_query atom (u_add h (u_rotate pivot atom (f_rot o i) (u_remove h u)))) u in
        match f_best o with Some p => rewrite h p u | None => u end
    | 2%nat =>
        let u := get_positions_with_two_bonds atom (f_rot o) u in
        let h := next u in
        let u := u_query atom (create_add (f_p0 o) (f_bs o) u) in
        let u := rewrite h (f_loc2 o) u in
        if f_back o then rewrite h (f_p0 o) u else u
    | 3%nat =>
        create_add (f_p0 o) (f_bs o) (get_position_with_three_bonds atom (f_rot o) u)
    | _ => u
    end.

  (* X.complete(): finalize, then every LP atom: remove_cell; remove_atom *)
  Definition complete_tail (lps : list nat) (u : ustate) : ustate := remove_delete_all lps u.

  (* Water.finalize() with atom = the oxygen; it calls itself again after
     adding H1 (at most: 0 bonds -> 1 bond -> 2 bonds), fuel = recursion depth *)
  Fixpoint water_finalize (fuel : nat) (o : nat -> fin_oracle) (atom : nat) (u : ustate) : ustate :=
    match fuel with
    | 0%nat => u
    | S k =>
      let oo := o k in
      if f_skip oo then u else
      match length (bonds u atom) with
      | 0%nat =>
          (* get_closest_atom(atom); create_atom; add_cell; finalize() *)
          water_finalize k o atom (create_add (f_p0 oo) (atom :: f_bs oo) (u_query atom u))
      | 1%nat =>
          let pivot := hd 0%nat (bonds u atom) in
          let h := next u in
          let u := u_add h (make_atom_with_one_bond (f_p0 oo) (atom :: f_bs oo) u) in
          let u := for_i 18 (fun i u => u_query h (u_add h (u_rotate pivot atom (f_rot oo i) (u_remove h u)))) u in
          let u := match f_best oo with Some p => rewrite h p u | None => u end in
          if f_again oo then water_finalize k o atom u else u
      | 2%nat =>
          let u := get_positions_with_two_bonds atom (f_rot oo) u in
          let h := next u in
          let u := u_query h (create_add (f_p0 oo) (f_bs oo) u) in
          let u := if f_near oo
                   then let u := u_query h (rewrite h (f_loc2 oo) u) in
                        if f_back oo then rewrite h (f_p0 oo) u else u
                   else u in
          if f_again oo then water_finalize k o atom u else u
      | 3%nat =>
          create_add (f_p0 oo) (f_bs oo) (get_position_with_three_bonds atom (f_rot oo) u)
      | _ => u
      end
    end.

  (* Carboxylic.__init__: per hydrogen name: two set_dihedral_angle calls
     (flip and back), create_atom of the mirrored hydrogen, add_cell *)
  Definition carboxylic_init (steps : list ((list nat * (nat -> pos)) * (list nat * (nat -> pos)) * (pos * list nat))) (u : ustate) : ustate :=
    for_each steps (fun s =>
      let '(d1, d2, n) := s in
      fun u => create_add (fst n) (snd n) (set_dihedral_angle (fst d2) (snd d2) (set_dihedral_angle (fst d1) (snd d1) u))) u.

  (* Carboxylic.rename(hydatom): at most one remove_cell; remove_atom *)
  Definition carboxylic_rename (del : option nat) (u : ustate) : ustate :=
    match del with Some a => remove_delete a u | None => u end.

  (* Carboxylic.fix(donor, acc): the other hydrogens go, then rename *)
  Definition carboxylic_fix (dels : list nat) (ren : option nat) (u : ustate) : ustate :=
    carboxylic_rename ren (remove_delete_all dels u).

  (* Carboxylic.try_acceptor(acc, donor): one hydrogen goes, then maybe rename *)
  Definition carboxylic_try_acceptor (del : option nat) (ren : option (option nat)) (u : ustate) : ustate :=
    let u := match del with Some a => remove_delete a u | None => u end in
    match ren with Some r => carboxylic_rename r u | None => u end.

  (* Carboxylic.finalize(): one query per hydrogen of hlist (on the atom it is
     bonded to), the losers go, then maybe rename *)
  Definition carboxylic_finalize (fixed : bool) (qs : list nat) (dels : list nat) (ren : option (option nat)) (u : ustate) : ustate :=
    if fixed then u else
    let u := for_each qs u_query u in
    let u := remove_delete_all dels u in
    match ren with Some r => carboxylic_rename r u | None => u end.

  (* HydrogenRoutines.optimize_hydrogens, detection loop: queries only *)
  Definition detect (qs : list nat) (u : ustate) : ustate := for_each qs u_query u.

  (* ---- histories: any sequence of the protocols above --------------------- *)
  Inductive call :=
  | CSetDihedral (atoms : list nat) (f : nat -> pos)
  | CDebump (sc : debump_script)
  | CDetect (qs : list nat)
  | CFlipInit (atoms : list nat) (f : nat -> pos) (news : list (pos * list nat))
  | CFlipFix (dels : list nat)
  | CFlipFinalize (fixed : bool) (dels : list nat)
  | CAlcInit (has : bool) (a : nat)
  | CAlcTryDonor (o : try_oracle) (donor : nat)
  | CAlcTryAcceptor (o : try_oracle) (acc : nat)
  | CWatTryDonor (o : try_oracle) (donor : nat)
  | CWatTryAcceptor (o : try_oracle) (acc : nat)
  | CUndo (h : nat)                                  (* the tail of Alcoholic/Water.try_both *)
  | CAlcFinalize (o : fin_oracle) (atom : nat)
  | CWatFinalize (fuel : nat) (o : nat -> fin_oracle) (atom : nat)
  | CCompleteTail (lps : list nat)
  | CCarbInit (steps : list ((list nat * (nat -> pos)) * (list nat * (nat -> pos)) * (pos * list nat)))
  | CCarbTryAcceptor (del : option nat) (ren : option (option nat))
  | CCarbFix (dels : list nat) (ren : option nat)
  | CCarbFinalize (fixed : bool) (qs dels : list nat) (ren : option (option nat)).

  Definition run_call (c : call) : ustate -> ustate :=
    match c with
    | CSetDihedral atoms f => set_dihedral_angle atoms f
    | CDebump sc => debump_run sc
    | CDetect qs => detect qs
    | CFlipInit atoms f news => flip_init atoms f news
    | CFlipFix dels => flip_fix_flip dels
    | CFlipFinalize fixed dels => flip_finalize fixed dels
    | CAlcInit has a => alcoholic_init has a
    | CAlcTryDonor o d => alcoholic_try_donor o d
    | CAlcTryAcceptor o a => alcoholic_try_acceptor o a
    | CWatTryDonor o d => water_try_donor o d
    | CWatTryAcceptor o a => water_try_acceptor o a
    | CUndo h => remove_delete h
    | CAlcFinalize o a => alcoholic_finalize o a
    | CWatFinalize fuel o a => water_finalize fuel o a
    | CCompleteTail lps => complete_tail lps
    | CCarbInit steps => carboxylic_init steps
    | CCarbTryAcceptor del ren => carboxylic_try_acceptor del ren
    | CCarbFix dels ren => carboxylic_fix dels ren
    | CCarbFinalize fixed qs dels ren => carboxylic_finalize fixed qs dels ren
    end.

  Definition run_calls (cl : list call) (u : ustate) : ustate := fold_left (fun u c => run_call c u) cl u.

  (* HydrogenRoutines.cleanup(): residue.remove_atom WITHOUT remove_cell.  It runs
     after the last query of the optimisation window (main.non_trivial) and
     the Cells object is not used again - it ends a history, it is not in it. *)
  Definition cleanup (dels : list nat) (u : ustate) : ustate := for_each dels u_delete u.
End Use.

(* ---- the table tie -------------------------------------------------------- *)
From Coq Require Import String.
Local Open Scope string_scope.

(* What this file models, row by row of Generated/C14Sites.v (same strings). A
   function that gains, loses or reorders a cell operation, a coordinate write,
   an atom creation/removal or a rotation changes its row and breaks
   sites_table_matches_model. *)
Definition modelled_sites : list (string * string) :=
 [("aa.Amino.create_atom", "W(newatom)");
  ("aa.LIG.create_atom", "W(newatom)");
  ("aa.WAT.create_atom", "W(newatom)");
  ("cells.Cells.add_cell", "Wcell(atom)");
  ("cells.Cells.assign_cells", "for{Wcell(atom) add(atom)}");
  ("cells.Cells.remove_cell", "Wcell(atom)");
  ("debump.Debump.__init__", "setcells");
  ("debump.Debump.debump_biomolecule", "newcells setcells assign for{call:find_residue_conflicts call:debump_residue}");
  ("debump.Debump.debump_residue", "for{call:score_dihedral_angle for{dih call:score_dihedral_angle if{call:find_residue_conflicts}} dih call:find_residue_conflicts} ret");
  ("debump.Debump.find_nearby_atoms", "qry(atom) ret");
  ("debump.Debump.find_residue_conflicts", "for{call:find_nearby_atoms} ret");
  ("debump.Debump.get_bump_score", "newcells setcells assign for{call:get_bump_score_atom} ret");
  ("debump.Debump.get_bump_score_atom", "qry(atom) ret");
  ("debump.Debump.get_closest_atom", "qry(atom) ret");
  ("debump.Debump.score_dihedral_angle", "for{call:find_nearby_atoms} ret");
  ("debump.Debump.set_dihedral_angle", "for{rem(atom) W(atom) add(atom)}");
  ("hydrogens.HydrogenRoutines.cleanup", "for{if{if{del('HE1')}}else{if{if{del('HD1')}}}}");
  ("hydrogens.HydrogenRoutines.initialize_full_optimization", "newcells setcells assign");
  ("hydrogens.HydrogenRoutines.initialize_wat_optimization", "newcells setcells assign");
  ("hydrogens.HydrogenRoutines.optimize_hydrogens", "for{for{qry(atom)}} for{if{call:finalize}} for{for{if{call:try_donor} if{call:try_acceptor}} for{if{call:try_both} if{call:try_both}} for{if{call:try_both} if{call:try_both}} for{call:complete}}");
  ("hydrogens.optimize.Optimize.get_position_with_three_bonds", "rot(pivot,atom) rot(pivot,atom) for{W(moved)} ret");
  ("hydrogens.optimize.Optimize.get_positions_with_two_bonds", "rot(fixed,atom) rot(fixed,atom) for{W(moved)} ret");
  ("hydrogens.optimize.Optimize.make_atom_with_no_bonds", "new(addname) add(newatom)");
  ("hydrogens.optimize.Optimize.make_atom_with_one_bond_h", "new(addname)");
  ("hydrogens.optimize.Optimize.make_atom_with_one_bond_lp", "new(addname)");
  ("hydrogens.optimize.Optimize.make_water_with_one_bond", "new(addname)");
  ("hydrogens.optimize.Optimize.try_positions_three_bonds_h", "new(newname) if{add(newatom) ret} del(newname) ret");
  ("hydrogens.optimize.Optimize.try_positions_three_bonds_lp", "new(newname) if{del(newname) ret} add(newatom) ret");
  ("hydrogens.optimize.Optimize.try_positions_with_two_bonds_h", "new(newname) W(newatom) if{W(newatom) add(newatom) ret} del(newname) ret");
  ("hydrogens.optimize.Optimize.try_positions_with_two_bonds_lp", "new(newname) W(newatom) if{del(newname) ret} W(newatom) add(newatom) ret");
  ("hydrogens.optimize.Optimize.try_single_alcoholic_h", "for{rot(pivot,donor)} if{W(newatom) add(newatom) ret} del(newatom.name) ret");
  ("hydrogens.optimize.Optimize.try_single_alcoholic_lp", "if{del(newatom.name) ret} for{rot(pivot,acc)} if{del(newatom.name) ret} W(newatom) add(newatom) ret");
  ("hydrogens.structures.Alcoholic.__init__", "if{rem(atom) del(name)}");
  ("hydrogens.structures.Alcoholic.complete", "call:finalize for{if{rem(atom) del(atom.name)}}");
  ("hydrogens.structures.Alcoholic.finalize", "if{call:make_atom_with_one_bond_h add(newatom) for{rem(newatom) rot(pivot,atom) add(newatom) qry(atom)} if{rem(newatom) W(newatom) add(newatom)}}else{if{call:get_positions_with_two_bonds new(addname) add(newatom) qry(atom) rem(newatom) W(newatom) add(newatom) if{rem(newatom) W(newatom) add(newatom)}}else{if{call:get_position_with_three_bonds new(addname) add(residue.get_atom(addname))}}}");
  ("hydrogens.structures.Alcoholic.try_acceptor", "if{call:make_atom_with_one_bond_lp call:try_single_alcoholic_lp ret}else{if{call:get_positions_with_two_bonds call:try_positions_with_two_bonds_lp ret}else{if{call:get_position_with_three_bonds call:try_positions_three_bonds_lp ret}}} ret");
  ("hydrogens.structures.Alcoholic.try_both", "if{call:try_acceptor ret} if{call:try_donor ret} call:try_donor if{call:try_acceptor rem(residue.get_atom(hname)) del(hname) ret} ret");
  ("hydrogens.structures.Alcoholic.try_donor", "if{call:make_atom_with_one_bond_h call:try_single_alcoholic_h ret}else{if{call:get_positions_with_two_bonds call:try_positions_with_two_bonds_h ret}else{if{call:get_position_with_three_bonds call:try_positions_three_bonds_h ret}}} ret");
  ("hydrogens.structures.Carboxylic.__init__", "for{dih dih new(newname) add(newatom)}");
  ("hydrogens.structures.Carboxylic.complete", "if{call:finalize}");
  ("hydrogens.structures.Carboxylic.finalize", "for{qry(bondedatom)} for{if{rem(hydatom) del(hydatom.name)}} if{call:rename}");
  ("hydrogens.structures.Carboxylic.fix", "for{if{rem(atom) del(atom.name)}} call:rename");
  ("hydrogens.structures.Carboxylic.rename", "if{}else{if{if{if{rem(residue.get_atom(f'{hydatom.name[:-1]}2')) del(f'{hydatom.name[:-1]}2')}}}}");
  ("hydrogens.structures.Carboxylic.try_acceptor", "if{if{rem(hyds[0]) del(hyds[0].name)}else{if{rem(hyds[1]) del(hyds[1].name)}} if{if{call:rename}} ret}else{ret}");
  ("hydrogens.structures.Carboxylic.try_both", "if{call:try_acceptor ret} if{call:try_donor ret} if{call:try_acceptor if{call:fix ret} ret} ret");
  ("hydrogens.structures.Carboxylic.try_donor", "if{call:fix ret} ret");
  ("hydrogens.structures.Flip.__init__", "dih for{new(newname) add(newatom)}");
  ("hydrogens.structures.Flip.complete", "call:finalize");
  ("hydrogens.structures.Flip.finalize", "for{if{rem(residue.get_atom(atom.name[:-4])) del(atom.name[:-4])}}");
  ("hydrogens.structures.Flip.fix_flip", "for{if{if{rem(residue.get_atom(atomname[:-4])) del(atomname[:-4])}}else{if{rem(atom) del(atomname)}else{cont}}}");
  ("hydrogens.structures.Flip.try_acceptor", "if{call:fix_flip ret} ret");
  ("hydrogens.structures.Flip.try_both", "if{call:try_acceptor ret} if{call:try_donor ret} if{call:try_acceptor if{call:fix_flip ret} ret} ret");
  ("hydrogens.structures.Flip.try_donor", "if{call:fix_flip ret} ret");
  ("hydrogens.structures.Generic.complete", "if{call:finalize}");
  ("hydrogens.structures.Water.complete", "call:finalize for{if{rem(atom) del(atom.name)}}");
  ("hydrogens.structures.Water.finalize", "if{call:get_closest_atom new(addname) add(residue.get_atom(addname)) call:finalize}else{if{call:make_water_with_one_bond add(newatom) for{rem(newatom) rot(pivot,atom) add(newatom) call:get_closest_atom} if{rem(newatom) W(newatom) add(newatom)} if{call:finalize}}else{if{call:get_positions_with_two_bonds new(addname) add(newatom) call:get_closest_atom if{rem(newatom) W(newatom) add(newatom) call:get_closest_atom if{if{rem(newatom) W(newatom) add(newatom)}}} if{call:finalize}}else{if{call:get_position_with_three_bonds new(addname) add(residue.get_atom(addname))}}}}");
  ("hydrogens.structures.Water.try_acceptor", "if{if{call:make_atom_with_no_bonds ret} ret}else{if{call:make_water_with_one_bond call:try_single_alcoholic_lp ret}else{if{call:get_positions_with_two_bonds call:try_positions_with_two_bonds_lp ret}else{if{call:get_position_with_three_bonds call:try_positions_three_bonds_lp ret}}}} ret");
  ("hydrogens.structures.Water.try_both", "if{call:try_acceptor ret} if{call:try_donor ret} call:try_donor if{call:try_acceptor if{rem(residue.get_atom('H2')) del('H2')}else{if{rem(residue.get_atom('H1')) del('H1')}} ret} ret");
  ("hydrogens.structures.Water.try_donor", "if{call:make_atom_with_no_bonds rem(residue.get_atom(newname)) del(newname) ret} if{call:make_water_with_one_bond call:try_single_alcoholic_h ret}else{if{call:get_positions_with_two_bonds call:try_positions_with_two_bonds_h ret}else{if{call:get_position_with_three_bonds call:try_positions_three_bonds_h ret}}} ret");
  ("main.non_trivial", "if{}else{if{try{call:debump_biomolecule}except{}} if{call:debump_biomolecule} if{call:initialize_full_optimization}else{call:initialize_wat_optimization} call:optimize_hydrogens call:cleanup} ret");
  ("na.Nucleic.create_atom", "W(newatom)");
  ("residue.Residue.rotate_tetrahedral", "for{W(atom)}");
  ("structures.Atom.__init__", "W(self) Wcell(self) if{W(self)}")].

Fixpoint table_eqb (a b : list (string * string)) : bool :=
  match a, b with
  | [], [] => true
  | (n1, s1) :: r1, (n2, s2) :: r2 => String.eqb n1 n2 && String.eqb s1 s2 && table_eqb r1 r2
  | _, _ => false
  end.
