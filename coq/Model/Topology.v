(* Types of the generated topology tables (Generated/Topology.v) and the
   graph functions over them used by C02-C06. Names are the interned ids of
   Generated/names.json (shared with the force-field tables). *)
From Coq Require Import List PArith Bool.
From PV Require Import Model.ForceField.
Import ListNotations.

Record tatom := mkta { ta_name : id; ta_bonds : list id }.
Record tres := mktr { tr_name : id; tr_atoms : list tatom; tr_dihedrals : list (id * id * id * id) }.
Record tpatch := mktp { tp_key : id; tp_name : id; tp_add : list tatom; tp_remove : list id;
                        tp_dihedrals : list (id * id * id * id) }.

Definition find_res (ts : list tres) (n : id) : option tres :=
  find (fun t => Pos.eqb (tr_name t) n) ts.

Definition find_atom (t : tres) (n : id) : option tatom :=
  find (fun a => Pos.eqb (ta_name a) n) (tr_atoms t).

Definition atom_names (t : tres) : list id := map ta_name (tr_atoms t).

Definition bonds_of (t : tres) (n : id) : list id :=
  match find_atom t n with Some a => ta_bonds a | None => [] end.
