(* C11 - dependency abstraction of "state that outlives a run".

   The process state is an assignment of values to SURVIVORS (objects that
   outlive a run: module-level containers, class attributes, mutable default
   arguments, caches, logger filters, interpreter-wide objects), named by the
   strings the generator /verif/gen/survivors.py interns.  A run also receives
   an ENTROPY assignment: one value per entropy site (iteration order chosen by
   the interpreter for a set - a function of the hash seed and of object
   addresses, hence of the process history -, clock, pid, id(), hash(), ...).
   The ENVIRONMENT of the process is part of the entropy: a site of kind
   E_fs_cwd is a file-system access whose path is resolved against the current
   working directory (its value: what the lookup finds there - nothing, or the
   bytes of a same-named file), E_env_read an environment variable / user /
   terminal / time-zone read, E_locale a byte<->text conversion or date
   rendering that follows the locale.  Two runs of the same request from two
   directories, under two environments or locales, are two runs with entropy
   assignments that differ at those sites.

   Executable model only, no proofs (they are in Proofs/History.v).  The
   generated tables live in Generated/Survivors.v and have the types below. *)
From Coq Require Import String List Bool.
Import ListNotations.
Local Open Scope string_scope.

Inductive skind :=
| K_module_container | K_module_iterator | K_module_instance | K_module_logger
| K_module_rebound | K_class_attr | K_mutable_default | K_cache
| K_logger_filter | K_logger_config | K_process_global.

Inductive ekind :=
| E_set_iteration | E_set_pop | E_set_repr | E_random | E_time | E_pid | E_id
| E_hash | E_fs_order | E_env_read | E_network | E_fs_cwd | E_locale.

(* one row of the survivors table *)
Record surv := mk_surv {
  s_id : string;
  s_kind : skind;
  s_written : bool;   (* some run-time code path writes it (after import) *)
  s_flows : bool      (* it can be read on a path to the PQR bytes *)
}.

(* one row of the entropy table *)
Record esite := mk_esite {
  e_id : string;
  e_kind : ekind;
  e_neutral : bool;   (* consumed through sorted() / a set-valued consumer *)
  e_flows : bool      (* can reach the PQR bytes *)
}.

(* table lookups by id (an id absent from the table is neither written nor read) *)
Definition written (t : list surv) (id : string) : bool :=
  existsb (fun s => (s_id s =? id) && s_written s) t.

Definition flows (t : list surv) (id : string) : bool :=
  existsb (fun s => (s_id s =? id) && s_flows s) t.

Definition live (t : list esite) (id : string) : bool :=
  existsb (fun e => (e_id e =? id) && e_flows e && negb (e_neutral e)) t.

(* THE generated obligations *)
(* every survivor is never written after import, or never read towards the output *)
Definition survivor_obligation (t : list surv) : bool :=
  forallb (fun s => negb (written t (s_id s) && flows t (s_id s))) t.

(* no unordered iteration / entropy source reaches the output un-neutralised *)
Definition entropy_obligation (t : list esite) : bool :=
  forallb (fun e => negb (e_flows e) || e_neutral e) t.

(* the rows that break the obligations (for diagnosis; printed by the harness) *)
Definition survivor_offenders (t : list surv) : list string :=
  map s_id (filter (fun s => written t (s_id s) && flows t (s_id s)) t).

Definition entropy_offenders (t : list esite) : list string :=
  map e_id (filter (fun e => e_flows e && negb (e_neutral e)) t).

Section Process.
  Variable Val : Type.      (* value held by a survivor *)
  Variable EVal : Type.     (* value delivered by an entropy site during one run *)
  Variable Input : Type.    (* input files + options *)
  Variable Output : Type.   (* PQR bytes *)

  Definition state := string -> Val.
  Definition entropy := string -> EVal.

  (* one completed run: main_driver(args) *)
  Variable run : state -> entropy -> Input -> Output * state.

  (* what happens in the process between import and the run we look at *)
  Inductive event :=
  | Run (i : Input) (e : entropy)        (* a run that completes *)
  | Crash (w : state -> state).          (* a run that stops early: arbitrary partial writes *)

  Definition step (acc : state * option Output) (ev : event) : state * option Output :=
    match ev with
    | Run i e => let (o, st') := run (fst acc) e i in (st', Some o)
    | Crash w => (w (fst acc), None)
    end.

  (* state after a history, and the output of its last event *)
  Definition exec (st0 : state) (h : list event) : state * option Output :=
    fold_left step h (st0, None).

  Definition out (st0 : state) (h : list event) : option Output := snd (exec st0 h).

  (* a failing run may leave arbitrary values, but only in survivors some
     run-time code path writes *)
  Definition crash_ok (t : list surv) (ev : event) : Prop :=
    match ev with
    | Run _ _ => True
    | Crash w => forall st id, written t id = false -> w st id = st id
    end.

  (* trusted meaning of the scan, part 1: the output of a run depends on the
     state only through survivors that flow to the output, and on the entropy
     only through live (flowing, un-neutralised) sites *)
  Definition reads_only (t : list surv) (et : list esite) : Prop :=
    forall st1 st2 e1 e2 i,
      (forall id, flows t id = true -> st1 id = st2 id) ->
      (forall id, live et id = true -> e1 id = e2 id) ->
      fst (run st1 e1 i) = fst (run st2 e2 i).

  (* part 2: a run writes only survivors marked written *)
  Definition writes_only (t : list surv) : Prop :=
    forall st e i id, written t id = false -> snd (run st e i) id = st id.
End Process.

(* ---- two concrete systems used for non-vacuity and necessity ------------ *)

(* values are numbers; input n; output = n + table + (cache if it leaks) *)
Definition demo_state (tbl cnt : nat) : state nat :=
  fun id => if id =? "table" then tbl else if id =? "counter" then cnt else 0.

Definition upd (st : state nat) (k : string) (v : nat) : state nat :=
  fun id => if id =? k then v else st id.

(* GOOD: reads "table" (never written), bumps "counter" (never read towards output) *)
Definition good_table : list surv :=
  [ mk_surv "table" K_module_container false true;
    mk_surv "counter" K_logger_filter true false ].

Definition good_run (st : state nat) (e : entropy nat) (i : nat) : nat * state nat :=
  (i + st "table", upd st "counter" (S (st "counter"))).

(* BAD: a cache that is written by every run and read towards the output *)
Definition bad_table : list surv :=
  [ mk_surv "cache" K_module_container true true ].

Definition bad_run (st : state nat) (e : entropy nat) (i : nat) : nat * state nat :=
  (if Nat.eqb (st "cache") 0 then i else st "cache", upd st "cache" (if Nat.eqb (st "cache") 0 then i else st "cache")).

(* BAD entropy: output lists a set in the interpreter's order *)
Definition bad_sites : list esite := [ mk_esite "for x in s" E_set_iteration false true ].
Definition good_sites : list esite :=
  [ mk_esite "sorted(s)" E_set_iteration true true; mk_esite "debug only" E_set_repr false false ].

Definition order_run (st : state nat) (e : entropy nat) (i : nat) : nat * state nat :=
  (i + e "for x in s", st).

(* BAD environment: a data file is first looked up "as given", i.e. in the
   current working directory; the entropy value of the site is what that lookup
   finds: 0 = no such file (fall back to the package table), n+1 = a same-named
   file whose parameter is n *)
Definition cwd_sites : list esite :=
  [ mk_esite "Path('AMBER.DAT').is_file()" E_fs_cwd false true ].
Definition cwd_table : list surv := [ mk_surv "table" K_module_container false true ].

Definition cwd_run (st : state nat) (e : entropy nat) (i : nat) : nat * state nat :=
  (match e "Path('AMBER.DAT').is_file()" with
   | 0 => i + st "table"
   | S decoy => i + decoy
   end, st).

(* GOOD environment: the side file is WRITTEN into the working directory (its
   location follows the cwd) but nothing on the way to the output reads the site *)
Definition env_good_sites : list esite :=
  [ mk_esite "sorted(s)" E_set_iteration true true;
    mk_esite "open(stem + '-input.p', 'wb')" E_fs_cwd false false;
    mk_esite "open(AA.xml) without encoding" E_locale false false ].

Arguments Run {Val EVal Input}.
Arguments Crash {Val EVal Input}.
Arguments step {Val EVal Input Output}.
Arguments exec {Val EVal Input Output}.
Arguments out {Val EVal Input Output}.
Arguments crash_ok {Val EVal Input}.
Arguments reads_only {Val EVal Input Output}.
Arguments writes_only {Val EVal Input Output}.

(* rendering used by the harness to compare the Coq tables with the generator's JSON *)
Definition show_bool (b : bool) : string := if b then "1" else "0".
Definition show_surv (s : surv) : string := s_id s ++ "|" ++ show_bool (s_written s) ++ show_bool (s_flows s).
Definition show_esite (e : esite) : string := e_id e ++ "|" ++ show_bool (e_neutral e) ++ show_bool (e_flows e).
