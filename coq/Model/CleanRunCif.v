(* The mmCIF route of `pdb2pqr --clean`: composition of the C10 model of cif.atom_site
   (Model/CifLine.v: the fixed-column line assembled for every _atom_site row, the
   MODEL/ENDMDL grouping of count_models / atom_site) with the clean-mode run of
   Model/CleanRun.v (Biomolecule.__init__ = C07's [group], set_termini, C08's writer).

   main_driver for a path ending in .cif:
     io.get_molecule -> cif.read_cif(file): pdbx.load ; for the (last) data block the records
        header, title, compnd, source, keywds, expdata, author, ssbond, cispep, cryst1,
        origxn, scalen, ATOM_SITE, conect        (lists concatenated in this order)
        - of these only atom_site's ATOM / HETATM / MODEL objects are looked at by
          main.drop_water and Biomolecule.__init__ (ENDMDL is ignored; read_cif never makes a
          TER or an END record: num_chains = 1, so no blank-chain lettering, and a residue is
          closed only by a key change, the second MODEL record or the end of the list);
          SSBOND / CISPEP / CONECT objects are not read in clean mode.
     is_cif = True: print_pqr drops every chunk that starts with "TER" (the TER lines and
        the final "TER\nEND") and appends "#\n"   (C08: file_chunks ws true).
   Every record object is built by the same classes the PDB reader uses: atom_site calls
   pdb.ATOM(line) / pdb.HETATM(line) on the assembled line, so the record is C07's column
   parser [parse_cols] applied to C10's [assemble]d line (the line is NOT stripped first,
   unlike read_pdb); an exception of the parser leaves atom_site, read_cif and main_driver.

   [mv] = the missing-value convention of the mmCIF library (C10).  No proofs here. *)
From Coq Require Import String Ascii List Arith NArith ZArith Bool.
From PV Require Import Lib.Strings Lib.Decimal Model.PdbRead Model.Group Model.PdbSpec Model.CleanRun.
From PV Require Model.PqrFormat Model.CifLine.
Import ListNotations.
Local Open Scope string_scope.

Module CL := PV.Model.CifLine.

Definition is_het (k : CL.kind) : bool := match k with CL.KHETATM => true | CL.KATOM => false end.

Section Recs.
  Variable fok : string -> bool.

  (* pdb.ATOM(line) / pdb.HETATM(line) as C07 models it; src := the stripped line
     (ghost: only record_type() = columns 1-6 of original_text is ever read) *)
  Definition cif_atom (k : CL.kind) (l : string) : presult := parse_cols fok (is_het k) (strip l) l.

  (* one record object of cif.atom_site -> the records Biomolecule / drop_water look at;
     None = the constructor raised *)
  Definition conv_record (rc : CL.record) : option (list rec) :=
    match rc with
    | CL.RAtom l f => match cif_atom (CL.f_kind f) l with POk a => Some [RAtom a] | _ => None end
    | CL.RModel _ _ => Some [RModel]
    | CL.REndmdl => Some []
    end.

  Fixpoint conv_records (l : list CL.record) : option (list rec) :=
    match l with
    | [] => Some []
    | rc :: r =>
        match conv_record rc, conv_records r with
        | Some a, Some b => Some (a ++ b)%list
        | _, _ => None
        end
    end.

  (* cif.read_cif, as far as clean mode goes; None = an exception left read_cif *)
  Definition cif_recs (mv : CL.mvconv) (rows : list CL.row) : option (list rec) :=
    let o := CL.atom_site mv rows in
    match CL.o_exn o with
    | Some _ => None
    | None => conv_records (CL.o_recs o)
    end.
End Recs.

(* ---- the clean run from a record list ---------------------------------------------- *)

Section Run.
  Variable fok : string -> bool.
  Variable tab : deftab.
  Variable pt : ptab.
  Variable near : atomrec -> atomrec -> bool.
  Variable r3 : string -> PqrFormat.fx.

  (* [drop_water] ; Biomolecule ; set_termini ; print_biomolecule_atoms *)
  Definition clean_items_of_recs (dropw keep : bool) (recs : list rec) : option (list PqrFormat.item) :=
    match group tab (if dropw then drop_water recs else recs) with
    | None => None
    | Some rs =>
        option_map (fun l => PqrFormat.print_items keep (map (conv r3) l)) (set_termini tab pt near rs)
    end.

  Definition clean_items_cif (mv : CL.mvconv) (dropw keep : bool) (rows : list CL.row)
    : option (list PqrFormat.item) :=
    match cif_recs fok mv rows with
    | None => None
    | Some recs => clean_items_of_recs dropw keep recs
    end.

  (* what print_pqr writes for CIF input *)
  Definition clean_run_cif (mv : CL.mvconv) (dropw keep ws : bool) (rows : list CL.row)
    : option (list string) :=
    option_map (fun its => PqrFormat.file_chunks ws true (map PqrFormat.item_text its))
               (clean_items_cif mv dropw keep rows).

  Definition clean_file_cif (mv : CL.mvconv) (dropw keep ws : bool) (rows : list CL.row) : option string :=
    option_map (String.concat "") (clean_run_cif mv dropw keep ws rows).
End Run.

(* ---- the PDB rendering of the same rows (C10's independent writer) ------------------ *)

(* one model: the rows' PDB v3.3 lines, as readline() chunks *)
Definition pdb_lines (rows : list CL.row) : list string :=
  map (fun r => CL.pdb_line_of_row r ++ nl) rows.

(* several models: MODEL n / that model's lines / ENDMDL, models in order of first appearance *)
Definition model_tok (r : CL.row) : string := CL.tok_or "" (CL.pdbx_PDB_model_num r).

Fixpoint distinct_models (rows : list CL.row) (acc : list string) : list string :=
  match rows with
  | [] => acc
  | r :: t => distinct_models t (if mem_str (model_tok r) acc then acc else (acc ++ [model_tok r])%list)
  end.

Definition pdb_lines_models (rows : list CL.row) : list string :=
  match distinct_models rows [] with
  | [_] => pdb_lines rows
  | ms =>
      flat_map (fun m =>
        (("MODEL     " ++ rjust 4 m ++ nl)%string ::
         (pdb_lines (filter (fun r => model_tok r =? m) rows) ++ [("ENDMDL" ++ nl)%string])%list)) ms
  end.

(* ---- guard of the equivalence theorem, per row (decidable) --------------------------- *)

(* the record the CIF route makes of the row is the record the PDB reader makes of the
   row's PDB line, and that line meets C07's G1 *)
Definition row_agree (fok : string -> bool) (mv : CL.mvconv) (r : CL.row) : bool :=
  match CL.row_line mv r with
  | CL.Ok (Some (k, l)) =>
      match cif_atom fok k l, line_recs fok (CL.pdb_line_of_row r ++ nl) with
      | POk a, [RAtom b] => atom_eqb a b && g_line fok (CL.pdb_line_of_row r ++ nl)
      | _, _ => false
      end
  | _ => false
  end.

(* a syntactic sufficient condition: C10's guard, blank charge columns, readable numbers *)
Definition row_syntactic (fok : string -> bool) (r : CL.row) : bool :=
  CL.guard r && CL.charge_blank r &&
  fok (CL.tok_or "" (CL.Cartn_x r)) && fok (CL.tok_or "" (CL.Cartn_y r)) && fok (CL.tok_or "" (CL.Cartn_z r)).

(* ---- show functions -------------------------------------------------------------------- *)

Definition show_cif (o : option string) : string :=
  match o with Some s => "OK:" ++ s | None => "EXC" end.
